"""C12 — association requests and responses pynetdicom sends are structurally conformant.

Monitor: the bytes of every A-ASSOCIATE-RQ / A-ASSOCIATE-AC the REAL pynetdicom puts on the wire are captured by a
scripted raw-socket peer (vlib.peer, speaks only through the independent reference codec vlib.ps38) and parsed
with `ps38.decode` + `Walk`; the statement of the property is asserted on the parse.

  RQ side  real `AE.associate(...)` (titles, max_pdu, implementation class UID / version name, ext_neg items built
           with the real pdu_primitives classes / build_role, 1..128(+) contexts through add_requested_context /
           the requested_contexts setter / contexts=[build_context()]) against a scripted acceptor (`Listener`) that
           records the raw RQ and answers with a reference AC or RJ.
  AC side  scripted requestor (`Peer`) sending varied, conformant reference RQs (1..128 contexts, shuffled odd ids,
           repeated abstract syntaxes, several transfer syntaxes, role / extended / common-extended / async /
           user-identity items) to real pynetdicom acceptors (varied titles, maximum PDU, implementation ids,
           add_supported_context with roles, negotiation handlers, unrestricted storage) and recording the raw AC.

Configurations the public API rejects with an exception are skipped and counted.  UID legality is asserted only for
UIDs that were legal when handed to the API (a non-conformant UID handed while `_config.ENFORCE_UID_CONFORMANCE` is
False is pynetdicom's documented opt-out: counted, never asserted).
"""
from __future__ import annotations

import re
import threading
import time
import warnings

from vlib import harness, ps38, taps
from vlib import peer as vpeer
from vlib.common import rng_for, sha

PID = "C12"
LEVEL = "exploration"
RULE = ("seeded configurations of the public API: requestor side = (AE title, called title, max_pdu, implementation "
        "class UID / version name, ENFORCE_UID_CONFORMANCE, context list of 1..128(+2) entries with repeated abstract "
        "syntaxes and 1..4 transfer syntaxes through one of three API routes, a combination of role / async / "
        "SOP-extended / common-extended / user-identity items) -> one A-ASSOCIATE-RQ captured by a scripted acceptor; "
        "acceptor side = (acceptor AE configuration with supported contexts + roles + negotiation handlers) x "
        "(conformant reference A-ASSOCIATE-RQ with 1..128 contexts, shuffled odd ids, negotiation items) -> one "
        "A-ASSOCIATE-AC captured by the scripted requestor.  distinct = hash of the captured PDU bytes; non-trivial = "
        "the PDU has >= 2 presentation contexts or >= 1 negotiation sub-item or a title with spaces / a 64-character "
        "UID / a non-default maximum length")
ASSUMPTIONS = [
    "what the scripted peer reads from the loopback TCP socket is what pynetdicom sent (first complete PDU of the connection)",
    "vlib.ps38 (written from PS3.8 9.3 / PS3.7 Annex D with struct only) is the reference parse; it never imports pynetdicom",
    "UIDs handed to the API are PS3.5-conformant except in the explicitly counted opt-out class (ENFORCE_UID_CONFORMANCE "
    "False), whose verbatim appearance on the wire is not asserted",
    "reference RQs sent to pynetdicom acceptors are conformant (checked with ps38.conformance_problems before sending)",
    "a configuration the API accepts but for which no RQ reaches the wire (exception in the DUL thread) is vacuous for "
    "this property: counted as accepted_but_nothing_sent, not a violation",
]
WORKERS = {"quick": 16, "thorough": 16}
REQUIRE = {
    "rq_pdus_checked": 280, "ac_pdus_checked": 350,
    "rq_with_128_contexts": 10, "ac_for_128_contexts": 10,
    "rq_with_negotiation_items": 100, "ac_with_negotiation_items": 50,
    "api_rejected_configurations": 40,
    "ac_accepted_items": 2000, "ac_rejected_items": 2000,
    "titles_with_spaces_on_wire": 150, "uids_64_chars_on_wire": 200,
}

# ------------------------------------------------------------------ reference notions of legality (PS3.5 6.2)

_UID_RE = re.compile(r"^(0|[1-9][0-9]*)(\.(0|[1-9][0-9]*))*$")
APP_CTX = "1.2.840.10008.3.1.1.1"
DEFAULT_TS = ["1.2.840.10008.1.2", "1.2.840.10008.1.2.1", "1.2.840.10008.1.2.1.99", "1.2.840.10008.1.2.2"]
TS_POOL = DEFAULT_TS + ["1.2.840.10008.1.2.4.50", "1.2.840.10008.1.2.4.70", "1.2.840.10008.1.2.4.90",
                        "1.2.840.10008.1.2.5", "1.2.840.10008.1.2.4.80"]
ABS_POOL = ["1.2.840.10008.1.1", "1.2.840.10008.5.1.4.1.1.2", "1.2.840.10008.5.1.4.1.1.4",
            "1.2.840.10008.5.1.4.1.1.7", "1.2.840.10008.5.1.4.1.1.1", "1.2.840.10008.5.1.4.1.2.1.1",
            "1.2.840.10008.5.1.4.1.2.2.1", "1.2.840.10008.5.1.4.1.2.2.2", "1.2.840.10008.5.1.4.1.2.2.3",
            "1.2.840.10008.5.1.4.31", "1.2.840.10008.1.20.1", "1.2.840.10008.5.1.1.9", "1.2.840.10008.3.1.2.3.3",
            "1.2.840.10008.5.1.4.1.1.88.11", "1.2.840.10008.5.1.4.1.1.481.2", "1.2.840.10008.5.1.4.34.6.1"]
AE_CHARS = "".join(chr(c) for c in range(0x21, 0x7F) if chr(c) != "\\")


def uid_defect(u):
    """None if `u` is a legal UI value, else the class of the defect."""
    if u == "":
        return "empty"
    if len(u) > 64:
        return "too-long"
    if not re.match(r"^[0-9.]*$", u):
        return "illegal-char"
    comps = u.split(".")
    if any(c == "" for c in comps):
        return "empty-component"
    if any(len(c) > 1 and c[0] == "0" for c in comps):
        return "leading-zero"
    return None if _UID_RE.match(u) else "illegal-char"


def title_defect(raw):
    """raw = the 16 characters of an AE-title field (latin-1 decoded)."""
    if len(raw) != 16:
        return "not-16-bytes"
    if raw.strip(" ") == "":
        return "all-spaces"
    if any(ord(c) < 0x20 or ord(c) > 0x7E or c == "\\" for c in raw):
        return "illegal-char"
    return None


def walk_class(msg):
    m = msg.lower()
    if "reserved" in m:
        return "reserved-not-zero"
    if "unexpected" in m or "unknown" in m:
        return "unexpected-item"
    if "trailing" in m or "misaligned" in m:
        return "trailing-bytes"
    return "length-mismatch"


# ------------------------------------------------------------------ seeded generators (pure; JSON-able output)

def gen_uid(rng, boundary=False):
    root = rng.choice(["1.2.840.10008", "1.2.826.0.1.3680043.9.3811", "2.25", "1.3.6.1.4.1.5962", "0.0", "2.16.840.1.113883",
                       "1", "1.3.12.2.1107.5"])
    comps = root.split(".")
    for _ in range(rng.randint(1, 6)):
        r = rng.random()
        if r < 0.15:
            comps.append("0")
        else:
            n = rng.choice([1, 1, 2, 3, 5, 8, 12])
            comps.append(str(rng.randint(1, 9)) + "".join(rng.choice("0123456789") for _ in range(n - 1)))
    u = ".".join(comps)
    while len(u) > 64:
        comps.pop()
        u = ".".join(comps)
    if boundary:
        # pad to exactly 64 characters with one more component
        room = 64 - len(u) - 1
        if room >= 1:
            u = u + "." + str(rng.randint(1, 9)) + "".join(rng.choice("0123456789") for _ in range(room - 1))
        else:
            u = "1." + "".join(rng.choice("123456789") for _ in range(62))
    assert uid_defect(u) is None, u
    return u


def gen_bad_uid(rng):
    return rng.choice(["1.02.3", "1.2.3.", ".1.2", "1..2", "1.2.840.a.3", "1.2 .3", "", "1." + "2" * 63, "1.2.3\x00",
                       "01.2", "1.2.3 "])


def gen_title(rng):
    """A title validate_ae admits and that is not entirely spaces (PS3.5 AE repertoire)."""
    shape = rng.choice(["plain", "plain", "lead", "trail", "inner", "both", "full16", "one", "spacey"])
    if shape == "one":
        return rng.choice(AE_CHARS)
    if shape == "full16":
        return "".join(rng.choice(AE_CHARS) for _ in range(16))
    if shape == "spacey":
        n = rng.randint(2, 16)
        s = [" "] * n
        s[rng.randrange(n)] = rng.choice(AE_CHARS)
        return "".join(s)
    n = rng.randint(1, 12)
    core = "".join(rng.choice(AE_CHARS) for _ in range(n))
    if shape == "inner" and n >= 2:
        k = rng.randrange(1, n)
        core = core[:k] + " " * rng.randint(1, 2) + core[k:]
    lead = rng.randint(1, 3) if shape in ("lead", "both") else 0
    trail = rng.randint(1, 3) if shape in ("trail", "both") else 0
    s = " " * lead + core + " " * trail
    return s[:16] if s[:16].strip(" ") else core[:16]


def gen_bad_title(rng):
    return rng.choice(["", " ", " " * 16, "A" * 17, "A\\B", "A\nB", "caf\xe9", "\x00ABC", "A\x7fB", " " * 17])


def gen_pcs(rng, n, with_ids=False, abs_pool=None):
    abs_pool = abs_pool or ABS_POOL
    style = rng.choice(["pool", "pool", "repeat-one", "repeat-few", "private"])
    few = [rng.choice(abs_pool) for _ in range(3)]
    priv = [gen_uid(rng, boundary=(rng.random() < 0.3)) for _ in range(4)]
    out = []
    for _ in range(n):
        if style == "repeat-one":
            a = few[0]
        elif style == "repeat-few":
            a = rng.choice(few)
        elif style == "private" and rng.random() < 0.5:
            a = rng.choice(priv)
        else:
            a = rng.choice(abs_pool)
        k = rng.choice([1, 1, 1, 2, 2, 3, 4])
        ts = [rng.choice(TS_POOL) for _ in range(k)]
        if rng.random() < 0.05:
            ts.append(gen_uid(rng, boundary=rng.random() < 0.5))     # private transfer syntax
        out.append({"abs": a, "ts": ts})
    if with_ids:
        odd = list(range(1, 256, 2))
        mode = rng.choice(["seq", "seq", "shuffled", "desc", "high"])
        if mode == "seq":
            ids = odd[:n]
        elif mode == "desc":
            ids = odd[:n][::-1]
        elif mode == "high":
            ids = odd[128 - n:]
        else:
            ids = rng.sample(odd, n)
        for pc, i in zip(out, ids):
            pc["id"] = i
            pc["ts"] = list(dict.fromkeys(pc["ts"]))
    return out


def gen_n_contexts(rng, allow_over=False):
    r = rng.random()
    if r < 0.18:
        return 1
    if r < 0.33:
        return rng.randint(2, 3)
    if r < 0.63:
        return rng.randint(4, 40)
    if r < 0.78:
        return rng.randint(41, 126)
    if r < 0.84:
        return 127
    if r < 0.95 or not allow_over:
        return 128
    return rng.choice([129, 130, 200])


def gen_ext(rng, pcs, requestor_api):
    """Negotiation sub-items in vlib.ps38 notation (at most one async / user-identity, distinct role UIDs)."""
    items = []
    if rng.random() < 0.45:
        return items
    abss = list(dict.fromkeys(pc["abs"] for pc in pcs))
    if rng.random() < 0.6:
        for a in rng.sample(abss, min(len(abss), rng.choice([1, 1, 2, 3, 8]))):
            scu, scp = rng.choice([(1, 1), (1, 0), (0, 1)])
            items.append({"k": "role", "uid": a, "scu": scu, "scp": scp, "via": rng.choice(["build_role", "class"])})
    if rng.random() < 0.35:
        items.append({"k": "async", "inv": rng.choice([0, 1, 2, 5, 65535]), "perf": rng.choice([0, 1, 3, 65535])})
    if rng.random() < 0.35:
        for a in rng.sample(abss, min(len(abss), rng.choice([1, 2]))):
            items.append({"k": "sopext", "uid": a, "info": bytes(rng.randrange(256) for _ in range(rng.choice([1, 2, 3, 6, 40]))).hex()})
    if rng.random() < 0.3:
        for a in rng.sample(abss, min(len(abss), rng.choice([1, 2]))):
            items.append({"k": "commonext", "uid": a, "svc": rng.choice(["1.2.840.10008.4.2", "1.2.840.10008.5.1.4.1.1", gen_uid(rng)]),
                          "rel": [gen_uid(rng, boundary=rng.random() < 0.2) for _ in range(rng.choice([0, 0, 1, 3]))]})
    if rng.random() < 0.35:
        t = rng.randint(1, 5)
        prim = bytes(rng.randrange(256) for _ in range(rng.choice([1, 4, 16, 300])))
        sec = bytes(rng.randrange(256) for _ in range(rng.choice([1, 8]))) if t == 2 else b""
        items.append({"k": "uid_rq", "utype": t, "resp": rng.choice([0, 1]), "prim": prim.hex(), "sec": sec.hex()})
    rng.shuffle(items)
    return items


def gen_max_pdu(rng):
    return rng.choice([0, 1, 7, 8, 255, 16382, 16382, 16384, 65536, 2 ** 31 - 1, 2 ** 31, 2 ** 32 - 1, rng.randrange(2 ** 32)])


def gen_version(rng):
    n = rng.choice([1, 2, 8, 14, 16, 16])
    s = "".join(rng.choice(AE_CHARS + "  ") for _ in range(n))
    return s if s.strip(" ") else "V" + s[1:]


def gen_rq_config(rng, idx, tier):
    """One configuration of the requestor-side public API."""
    cfg = {"side": "rq", "idx": idx, "enforce": rng.random() < 0.25, "expect_reject": False}
    cfg["title"] = gen_title(rng)
    cfg["title_via"] = rng.choice(["ctor", "setter"])
    cfg["called"] = gen_title(rng) if rng.random() < 0.85 else None
    cfg["max_pdu"] = gen_max_pdu(rng) if rng.random() < 0.8 else None
    r = rng.random()
    cfg["icu"] = None if r < 0.3 else gen_uid(rng, boundary=(r > 0.8))
    r = rng.random()
    cfg["ivn"] = "__default__" if r < 0.3 else (None if r < 0.45 else gen_version(rng))
    n = gen_n_contexts(rng, allow_over=True)
    cfg["route"] = rng.choice(["add", "add", "setter", "arg"])
    pcs = gen_pcs(rng, n)
    if cfg["route"] == "add" and rng.random() < 0.3:
        for pc in pcs:
            if rng.random() < 0.3:
                pc["ts"] = None          # -> DEFAULT_TRANSFER_SYNTAXES
    cfg["contexts"] = pcs
    if n > 128:
        cfg["expect_reject"] = True
    cfg["ext"] = gen_ext(rng, pcs, True)
    cfg["answer"] = rng.choice(["rj", "rj", "rj", "ac-abort", "ac-release", "ac-mixed"])
    # rarer classes: inputs the API should refuse, and the documented UID opt-out
    r = rng.random()
    if r < 0.04:
        cfg["title"] = gen_bad_title(rng); cfg["expect_reject"] = True
    elif r < 0.08:
        cfg["called"] = gen_bad_title(rng); cfg["expect_reject"] = True
    elif r < 0.11:
        cfg["max_pdu"] = rng.choice([-1, -2 ** 31, None, 1.5, "16382"]); cfg["max_pdu_raw"] = True; cfg["expect_reject"] = True
    elif r < 0.14:
        cfg["icu"] = gen_bad_uid(rng); cfg["expect_reject"] = True
    elif r < 0.17:
        cfg["ivn"] = rng.choice(["", " ", "A" * 17, "A\\B", " " * 16]); cfg["expect_reject"] = True
    elif r < 0.24:
        # non-conformant UID handed to the API: rejected when enforcing, documented opt-out otherwise
        bad = gen_bad_uid(rng)
        where = rng.choice(["abs", "ts", "role", "sopext"])
        pc = rng.choice(pcs)
        if where == "abs":
            pc["abs"] = bad
        elif where == "ts":
            pc["ts"] = (pc["ts"] or []) + [bad]
        elif where == "role":
            cfg["ext"].append({"k": "role", "uid": bad, "scu": 1, "scp": 1, "via": "build_role"})
        else:
            cfg["ext"].append({"k": "sopext", "uid": bad, "info": "00"})
        cfg["nonconformant_uid"] = bad
    elif r < 0.27:
        rng.choice(pcs)["ts"] = []       # a context without any transfer syntax
        cfg["empty_ts_list"] = True
    if tier == "thorough" and rng.random() < 0.002:
        cfg["max_pdu"] = 2 ** 32         # accepted by the API, RQ cannot be encoded (nothing is sent)
    return cfg


def gen_ac_block(rng, count):
    """One acceptor configuration + `count` reference requests."""
    n_sup = rng.choice([1, 3, 6, 10, len(ABS_POOL)])
    sup_abs = rng.sample(ABS_POOL, n_sup)
    priv = [gen_uid(rng, boundary=True) for _ in range(2)]
    if rng.random() < 0.4:
        sup_abs += priv
    supported = []
    for a in sup_abs:
        r = rng.random()
        ts = None if r < 0.25 else rng.sample(TS_POOL, rng.choice([1, 1, 2, 4, len(TS_POOL)]))
        roles = rng.choice([None, None, (True, True), (True, False), (False, True)])
        supported.append({"abs": a, "ts": ts, "roles": roles})
    r = rng.random()
    acc = {"title": gen_title(rng), "max_pdu": gen_max_pdu(rng), "icu": None if r < 0.3 else gen_uid(rng, boundary=r > 0.8),
           "ivn": rng.choice(["__default__", None, gen_version(rng)]), "supported": supported,
           "unrestricted": rng.random() < 0.15,
           "handlers": {"async": rng.random() < 0.5, "sopext": rng.choice(["none", "echo", "subset"]),
                        "common": rng.random() < 0.5, "userid": rng.choice(["none", "none", "ok", "ok-rsp", "deny"])}}
    pool = sup_abs + rng.sample(ABS_POOL, 4)
    rqs = []
    for _ in range(count):
        n = gen_n_contexts(rng)
        pcs = gen_pcs(rng, n, with_ids=True, abs_pool=pool)
        r = rng.random()
        rq = ps38.make_rq(called=gen_title(rng), calling=gen_title(rng), pcs=pcs, maxlen=gen_max_pdu(rng),
                          impl_uid=gen_uid(rng, boundary=r > 0.8), impl_ver=(None if r < 0.2 else gen_version(rng)),
                          extra_ui=[{k: v for k, v in it.items() if k != "via"} for it in gen_ext(rng, pcs, False)])
        rqs.append({"rq": rq, "end": rng.choice(["abort", "abort", "release"])})
    return {"acceptor": acc, "rqs": rqs}


def gen_cases(tier, seed):
    blocks, per = (32, 14) if tier == "quick" else (1200, 16)
    cases = []
    for b in range(blocks):
        cases.append({"seed": seed, "side": "rq", "block": b, "count": per, "tier": tier})
        cases.append({"seed": seed, "side": "ac", "block": b, "count": per, "tier": tier})
    return cases


# ------------------------------------------------------------------ worker

def setup_worker():
    harness.quiet_logging()
    warnings.simplefilter("ignore")
    taps.install()


class Tally:
    def __init__(self):
        self.counters = {}
        self.viol = []
        self.hashes = []
        self.nontrivial = []
        self.notes = {}
        self.inconclusive = []

    def bump(self, name, n=1):
        self.counters[name] = self.counters.get(name, 0) + n

    def add(self, key, detail):
        if not any(v["key"] == key for v in self.viol):
            self.viol.append({"key": key, "detail": detail[:1200]})
        self.bump("violating_observations")


# ------------------------------------------------------------------ the oracle (independent of pynetdicom)

def _uid_sites(v, side):
    """[(where, uid, significant)] for every UID field of a decoded RQ/AC."""
    p = side
    sites = [(p + "-app-context", v["app_ctx"] if v["app_ctx"] is not None else "", True)]
    for pc in v["pcs"]:
        if side == "rq":
            sites.append((p + "-abstract-syntax", pc["abs"] if pc["abs"] is not None else "", True))
            sites.extend((p + "-transfer-syntax", t, True) for t in pc["ts"])
        elif pc["result"] == 0:
            sites.append((p + "-accepted-transfer-syntax", pc["ts"] if pc["ts"] is not None else "", True))
    for s in v["ui"] or []:
        k = s["k"]
        if k == "impl_uid":
            sites.append((p + "-impl-class-uid", s["v"], True))
        elif k == "role":
            sites.append((p + "-role-uid", s["uid"], True))
        elif k == "sopext":
            sites.append((p + "-sopext-uid", s["uid"], True))
        elif k == "commonext":
            sites.append((p + "-commonext-uid", s["uid"], True))
            sites.append((p + "-commonext-service-uid", s["svc"], True))
            sites.extend((p + "-commonext-related-uid", r, True) for r in s["rel"])
    return sites


def check_common(raw, v, w, side, handed_uids, handed_illegal, enforce, T, ctx):
    """Assertions shared by RQ and AC.  `handed_uids`: every UID that went into the API / the peer's request (+ the
    ones pynetdicom supplies by default); `handed_illegal`: non-conformant UIDs deliberately handed to the API (when
    there is one, only its verbatim appearance under ENFORCE_UID_CONFORMANCE=True is asserted: pydicom's UID() may
    normalise such a value, so neither 'not-handed' nor 'illegal' can be attributed to pynetdicom)."""
    relaxed = bool(handed_illegal)
    for msg in w.problems:
        T.add("%s|walk|%s" % (side, walk_class(msg)), "%s; %s" % (msg, ctx))
    if v["n_app_ctx"] != 1:
        T.add("%s|app-context|count" % side, "%d application context items; %s" % (v["n_app_ctx"], ctx))
    if v["n_ui"] != 1:
        T.add("%s|user-info|item-count" % side, "%d user information items; %s" % (v["n_ui"], ctx))
    kinds = [s["k"] for s in (v["ui"] or [])]
    if kinds.count("maxlen") != 1:
        T.add("%s|user-info|maxlen-count" % side, "%d maximum-length sub-items; ui=%r; %s" % (kinds.count("maxlen"), kinds, ctx))
    if kinds.count("impl_uid") != 1:
        T.add("%s|user-info|impl-uid-count" % side, "%d implementation-class-UID sub-items; ui=%r; %s" % (kinds.count("impl_uid"), kinds, ctx))
    if kinds.count("impl_ver") > 1:
        T.add("%s|user-info|impl-version-count" % side, "%d implementation-version-name sub-items; ui=%r; %s" % (kinds.count("impl_ver"), kinds, ctx))
    # AE titles
    for name in ("called", "calling"):
        rawt = v[name + "_raw"]
        d = title_defect(rawt)
        if d:
            T.add("wire|ae-title|%s|%s-%s" % (d, side, name), "%s title field %r; %s" % (name, rawt, ctx))
        if " " in rawt.strip(" ") or rawt[0] == " ":
            T.bump("titles_with_spaces_on_wire")
    # UIDs
    for where, u, _sig in _uid_sites(v, side):
        T.bump("uids_on_wire")
        if len(u) == 64:
            T.bump("uids_64_chars_on_wire")
        d = uid_defect(u)
        if d is None:
            if u not in handed_uids and relaxed:
                T.bump("optout_transformed_uid_not_asserted")
            elif u not in handed_uids:
                T.add("wire|uid|not-handed|%s" % where, "legal UID %r on the wire was never handed to the API / proposed (corrupted?); %s" % (u, ctx))
            continue
        if u in handed_illegal:
            if enforce:
                T.add("wire|uid|illegal|enforce-on|%s|%s" % (d, where),
                      "non-conformant UID %r accepted by the API and sent although ENFORCE_UID_CONFORMANCE is True; %s" % (u, ctx))
            else:
                T.bump("optout_nonconformant_uid_on_wire_not_asserted")
            continue
        if relaxed:
            T.bump("optout_transformed_uid_not_asserted")
            continue
        T.add("wire|uid|illegal|%s|%s" % (where, d), "UID %r on the wire (%s) although every UID handed was legal or different; %s" % (u, d, ctx))


def check_rq(raw, handed, T, ctx):
    w = ps38.Walk()
    try:
        v = ps38.decode(raw, w)
    except Exception as exc:
        T.add("rq|undecodable", "reference decoder failed: %r; %s; first bytes %s" % (exc, ctx, raw[:80].hex()))
        return None
    if v["type"] != "RQ":
        T.bump("first_pdu_not_rq")
        return None
    T.bump("rq_pdus_checked")
    pcs = v["pcs"]
    if len(pcs) == 0:
        T.add("rq|context-count|zero", "A-ASSOCIATE-RQ without presentation context; %s" % ctx)
    if len(pcs) > 128:
        T.add("rq|context-count|over-128", "A-ASSOCIATE-RQ with %d presentation contexts; %s" % (len(pcs), ctx))
    ids = [pc["id"] for pc in pcs]
    if len(set(ids)) != len(ids):
        dup = sorted({i for i in ids if ids.count(i) > 1})
        T.add("rq|context-ids|duplicate", "duplicate context ids %r among %d contexts; %s" % (dup[:8], len(ids), ctx))
    if any(i % 2 == 0 for i in ids):
        T.add("rq|context-ids|even", "even context ids %r; %s" % ([i for i in ids if i % 2 == 0][:8], ctx))
    for pc in pcs:
        if pc["n_abs"] != 1:
            T.add("rq|context|abstract-syntax-count", "context %d has %d abstract syntax sub-items; %s" % (pc["id"], pc["n_abs"], ctx))
        if len(pc["ts"]) < 1:
            T.add("rq|context|no-transfer-syntax", "context %d (%r) has no transfer syntax sub-item; %s" % (pc["id"], pc["abs"], ctx))
    check_common(raw, v, w, "rq", handed["uids"], handed["illegal"], handed["enforce"], T, ctx)
    # negotiation items must not be multiplied by pynetdicom
    kinds = [s["k"] for s in v["ui"] or []]
    for k in ("role", "async", "sopext", "commonext", "uid_rq"):
        if kinds.count(k) > handed["ext_counts"].get(k, 0):
            T.add("rq|user-info|negotiation-item-multiplied|%s" % k, "%d %s sub-items on the wire, %d handed; %s" % (kinds.count(k), k, handed["ext_counts"].get(k, 0), ctx))
    if any(k in ("uid_ac", "unknown") for k in kinds):
        T.add("rq|user-info|unexpected-sub-item", "ui=%r; %s" % (kinds, ctx))
    _account(raw, v, T, "rq")
    return v


def check_ac(raw, rq, handed_uids, T, ctx):
    w = ps38.Walk()
    try:
        v = ps38.decode(raw, w)
    except Exception as exc:
        T.add("ac|undecodable", "reference decoder failed: %r; %s; first bytes %s" % (exc, ctx, raw[:80].hex()))
        return None
    T.bump("ac_pdus_checked")
    proposed = {pc["id"]: pc for pc in rq["pcs"]}
    ids = [pc["id"] for pc in v["pcs"]]
    missing = sorted(set(proposed) - set(ids))
    extra = sorted(set(ids) - set(proposed))
    if missing:
        T.add("ac|missing-result-item", "no result item for proposed context ids %r (%d proposed, %d result items); %s" % (missing[:10], len(proposed), len(ids), ctx))
    if extra:
        T.add("ac|extra-result-item", "result items for context ids %r that were not proposed; %s" % (extra[:10], ctx))
    if len(set(ids)) != len(ids):
        T.add("ac|duplicate-result-item", "context ids %r have more than one result item; %s" % (sorted({i for i in ids if ids.count(i) > 1})[:10], ctx))
    for pc in v["pcs"]:
        if pc["result"] not in (0, 1, 2, 3, 4):
            T.add("ac|result-code-illegal", "context %d result %d; %s" % (pc["id"], pc["result"], ctx))
        if pc["result"] == 0:
            T.bump("ac_accepted_items")
            if pc["n_ts"] != 1:
                T.add("ac|accepted-ts-count", "accepted context %d carries %d transfer syntax sub-items; %s" % (pc["id"], pc["n_ts"], ctx))
            elif pc["id"] in proposed and pc["ts"] not in proposed[pc["id"]]["ts"]:
                T.add("ac|accepted-ts-not-proposed", "accepted context %d carries transfer syntax %r, proposed were %r; %s" % (pc["id"], pc["ts"], proposed[pc["id"]]["ts"], ctx))
        else:
            T.bump("ac_rejected_items")
    check_common(raw, v, w, "ac", handed_uids, set(), False, T, ctx)
    kinds = [s["k"] for s in v["ui"] or []]
    if any(k in ("uid_rq", "unknown") for k in kinds):
        T.add("ac|user-info|unexpected-sub-item", "ui=%r; %s" % (kinds, ctx))
    _account(raw, v, T, "ac", n_proposed=len(proposed))
    return v


def _account(raw, v, T, side, n_proposed=None):
    """Coverage bookkeeping + non-asserted notes of the wider conformance judgement."""
    n = len(v["pcs"]) if n_proposed is None else n_proposed
    kinds = [s["k"] for s in v["ui"] or []]
    neg = [k for k in kinds if k not in ("maxlen", "impl_uid", "impl_ver")]
    if n == 128:
        T.bump("rq_with_128_contexts" if side == "rq" else "ac_for_128_contexts")
    if neg:
        T.bump("%s_with_negotiation_items" % side)
    for k in set(neg):
        T.bump("%s_items_%s" % (side, k))
    maxlen = [s["v"] for s in v["ui"] or [] if s["k"] == "maxlen"]
    nontrivial = (n >= 2 or bool(neg) or any(len(u) == 64 for _, u, _ in _uid_sites(v, side))
                  or any(" " in v[t + "_raw"].strip(" ") or v[t + "_raw"][0] == " " for t in ("called", "calling"))
                  or maxlen != [16382])
    h = sha(raw)
    T.hashes.append(h)
    if nontrivial:
        T.nontrivial.append(h)
    for p in ps38.conformance_problems(raw):
        T.notes[p] = T.notes.get(p, 0) + 1


# ------------------------------------------------------------------ requestor side (real AE.associate)

def _build_ext_items(items):
    from pynetdicom import build_role
    from pynetdicom.pdu_primitives import (AsynchronousOperationsWindowNegotiation, SCP_SCU_RoleSelectionNegotiation,
                                           SOPClassCommonExtendedNegotiation, SOPClassExtendedNegotiation,
                                           UserIdentityNegotiation)
    out = []
    for it in items:
        k = it["k"]
        if k == "role":
            if it.get("via") == "build_role":
                out.append(build_role(it["uid"], scu_role=bool(it["scu"]), scp_role=bool(it["scp"])))
            else:
                r = SCP_SCU_RoleSelectionNegotiation()
                r.sop_class_uid = it["uid"]; r.scu_role = bool(it["scu"]); r.scp_role = bool(it["scp"])
                out.append(r)
        elif k == "async":
            a = AsynchronousOperationsWindowNegotiation()
            a.maximum_number_operations_invoked = it["inv"]; a.maximum_number_operations_performed = it["perf"]
            out.append(a)
        elif k == "sopext":
            s = SOPClassExtendedNegotiation()
            s.sop_class_uid = it["uid"]; s.service_class_application_information = bytes.fromhex(it["info"])
            out.append(s)
        elif k == "commonext":
            c = SOPClassCommonExtendedNegotiation()
            c.sop_class_uid = it["uid"]; c.service_class_uid = it["svc"]
            c.related_general_sop_class_identification = list(it["rel"])
            out.append(c)
        elif k == "uid_rq":
            u = UserIdentityNegotiation()
            u.user_identity_type = it["utype"]; u.primary_field = bytes.fromhex(it["prim"])
            if it["sec"]:
                u.secondary_field = bytes.fromhex(it["sec"])
            u.positive_response_requested = bool(it["resp"])
            out.append(u)
    return out


def _acceptor_script(lst, stop, answer, got):
    p = None
    while not stop.is_set() and p is None:
        p = lst.accept(0.05)
    if p is None:
        return
    try:
        raw = p.recv_pdu_bytes(4.0)
        got["first"] = raw
        if not raw or raw[0] != 1:
            return
        try:
            rq = ps38.decode(raw)
        except Exception:
            p.send_pdu({"type": "RJ", "result": 1, "source": 1, "reason": 1})
            return
        if answer == "rj" or not rq["pcs"]:
            p.send_pdu({"type": "RJ", "result": 1, "source": 1, "reason": 1})
        else:
            results = None
            if answer == "ac-mixed":
                results = {pc["id"]: (0 if i % 2 == 0 else 3) for i, pc in enumerate(rq["pcs"])}
            ac = ps38.make_ac({"called": rq["called"], "calling": rq["calling"], "pcs": rq["pcs"], "app_ctx": APP_CTX}, results=results)
            p.send_pdu(ac)
            nxt = p.recv_pdu(4.0)
            if nxt and nxt.get("type") == "RELRQ":
                p.send_pdu({"type": "RELRP"})
        p.wait_eof(2.0)
    except OSError:
        pass
    finally:
        p.close()


def run_rq_config(cfg, T):
    from pynetdicom import AE, _config, build_context
    taps.reset()
    lst = vpeer.Listener()
    stop = threading.Event()
    got = {}
    th = threading.Thread(target=_acceptor_script, args=(lst, stop, cfg["answer"], got), daemon=True)
    th.start()
    T.bump("rq_configurations")
    saved = _config.ENFORCE_UID_CONFORMANCE
    ae = None
    assoc = None
    rejected = None
    step = "AE()"
    handed = {"uids": set([APP_CTX] + DEFAULT_TS), "illegal": set(), "enforce": cfg["enforce"], "ext_counts": {}}

    def hand(u):
        (handed["uids"] if uid_defect(u) is None else handed["illegal"]).add(u)

    try:
        _config.ENFORCE_UID_CONFORMANCE = cfg["enforce"]
        try:
            if cfg["title_via"] == "ctor":
                ae = AE(ae_title=cfg["title"])
            else:
                ae = AE()
                step = "ae.ae_title"
                ae.ae_title = cfg["title"]
            ae.acse_timeout = 1.0; ae.dimse_timeout = 1.0; ae.network_timeout = 1.0; ae.connection_timeout = 2.0
            if cfg["icu"] is not None:
                step = "ae.implementation_class_uid"
                ae.implementation_class_uid = cfg["icu"]
            if cfg["icu"] is not None and uid_defect(cfg["icu"]) is None:
                hand(cfg["icu"])
            else:
                hand(str(ae.implementation_class_uid))     # the default, or what the AE reports after normalisation
            if cfg["ivn"] != "__default__":
                step = "ae.implementation_version_name"
                ae.implementation_version_name = cfg["ivn"]
            kw = {}
            step = "contexts"
            for pc in cfg["contexts"]:
                hand(pc["abs"])
                for t in pc["ts"] or []:
                    hand(t)
            if cfg["route"] == "add":
                step = "ae.add_requested_context"
                for pc in cfg["contexts"]:
                    if pc["ts"] is None:
                        ae.add_requested_context(pc["abs"])
                    elif len(pc["ts"]) == 1 and len(pc["abs"]) % 2:
                        ae.add_requested_context(pc["abs"], pc["ts"][0])
                    else:
                        ae.add_requested_context(pc["abs"], list(pc["ts"]))
            else:
                step = "build_context"
                cxs = [build_context(pc["abs"], list(pc["ts"]) if pc["ts"] is not None else None) for pc in cfg["contexts"]]
                if len(cxs) >= 2 and len(cxs) % 3 != 1:
                    # contexts that already carry an ID (e.g. taken from an earlier association's accepted_contexts):
                    # associate() must still hand out distinct odd IDs
                    cxs[0].context_id = 3
                    cxs[-1].context_id = 1
                    T.bump("rq_lists_with_stale_context_ids")
                if cxs and len(cxs) < 128 and len(cxs) % 2 == 0:
                    # the same PresentationContext OBJECT listed twice (repeated abstract syntax by aliasing)
                    cxs.append(cxs[0])
                    T.bump("rq_lists_with_aliased_context")
                if cfg["route"] == "setter":
                    step = "ae.requested_contexts"
                    ae.requested_contexts = cxs
                else:
                    kw["contexts"] = cxs
            step = "ext_neg items"
            for it in cfg["ext"]:
                for f in ("uid", "svc"):
                    if f in it:
                        hand(it[f])
                for r in it.get("rel", []):
                    hand(r)
                handed["ext_counts"][it["k"]] = handed["ext_counts"].get(it["k"], 0) + 1
            ext = _build_ext_items(cfg["ext"])
            if ext or cfg["idx"] % 2:
                kw["ext_neg"] = ext
            if cfg["called"] is not None:
                kw["ae_title"] = cfg["called"]
            if cfg["max_pdu"] is not None or cfg.get("max_pdu_raw"):
                kw["max_pdu"] = cfg["max_pdu"]
            step = "ae.associate"
            assoc = ae.associate("127.0.0.1", lst.port, **kw)
        except Exception as exc:
            rejected = "%s at %s: %s" % (type(exc).__name__, step, str(exc)[:120])
    finally:
        _config.ENFORCE_UID_CONFORMANCE = saved
    try:
        if assoc is not None and assoc.is_established:
            T.bump("rq_associations_established")
            if cfg["answer"] == "ac-release":
                assoc.release()
            else:
                assoc.abort()
    except Exception as exc:
        T.bump("end_of_association_exceptions")
    if "first" not in got and rejected is None and assoc is not None:
        # the peer has not seen anything yet: give the script a moment (bounded)
        harness.wait_for(lambda: "first" in got or not th.is_alive(), 3.0)
    stop.set()
    th.join(6.0)
    lst.close()
    if ae is not None:
        harness.stop_ae(ae, 3.0)
    ctx = "config=%s" % _short_cfg(cfg)
    raw = got.get("first")
    if rejected is not None:
        T.bump("api_rejected_configurations")
        T.bump("api_rejected|" + rejected.split(" at ")[1].split(":")[0])
        if not cfg["expect_reject"] and cfg.get("nonconformant_uid") is None and not cfg.get("empty_ts_list"):
            T.bump("api_rejected_unexpectedly")
            T.notes["unexpected API rejection: " + rejected[:100]] = 1
        if raw:
            # the API raised, yet something was sent: still judged (it is on the wire)
            T.bump("sent_despite_exception")
        else:
            return
    elif cfg["expect_reject"]:
        T.bump("api_accepted_a_configuration_expected_to_be_refused")
    if not raw:
        T.bump("accepted_but_nothing_sent")
        why = "; ".join("%s:%s" % (e["type"], e["text"][:60]) for e in taps.State.excs[:2])
        T.notes["accepted but nothing sent: " + (why or "no escaped exception")[:100]] = 1
        return
    if cfg.get("nonconformant_uid") is not None:
        T.bump("rq_sent_with_nonconformant_uid_handed")
    check_rq(raw, handed, T, ctx)


def _short_cfg(cfg):
    c = dict(cfg)
    pcs = c.pop("contexts", [])
    c["n_contexts"] = len(pcs)
    c["contexts_head"] = pcs[:3]
    return repr(c)[:700]


# ------------------------------------------------------------------ acceptor side (real pynetdicom acceptor)

def _handlers(spec):
    from pynetdicom import evt
    hs = []
    if spec["async"]:
        hs.append((evt.EVT_ASYNC_OPS, lambda event: (event.nr_invoked, event.nr_performed)))
    if spec["sopext"] != "none":
        def sopext(event, mode=spec["sopext"]):
            items = dict(event.app_info)
            if mode == "subset":
                items = dict(list(items.items())[:1])
            return items
        hs.append((evt.EVT_SOP_EXTENDED, sopext))
    if spec["common"]:
        hs.append((evt.EVT_SOP_COMMON, lambda event: event.items))
    if spec["userid"] != "none":
        def userid(event, mode=spec["userid"]):
            if mode == "deny":
                return False, None
            return True, (b"SERVER-RESPONSE" if mode == "ok-rsp" else None)
        hs.append((evt.EVT_USER_ID, userid))
    return hs


def run_ac_block(block, T):
    from pynetdicom import AE, _config
    taps.reset()
    acc = block["acceptor"]
    saved = _config.UNRESTRICTED_STORAGE_SERVICE
    ae = AE(ae_title=acc["title"])
    ae.acse_timeout = 2.0; ae.dimse_timeout = 2.0; ae.network_timeout = 2.0
    ae.maximum_associations = 100
    ae.maximum_pdu_size = acc["max_pdu"]
    if acc["icu"] is not None:
        ae.implementation_class_uid = acc["icu"]
    if acc["ivn"] != "__default__":
        ae.implementation_version_name = acc["ivn"]
    base_uids = set([APP_CTX, str(ae.implementation_class_uid)] + DEFAULT_TS)
    for s in acc["supported"]:
        args = [s["abs"]]
        kw = {}
        if s["ts"] is not None:
            kw["transfer_syntax"] = list(s["ts"])
            base_uids.update(s["ts"])
        if s["roles"] is not None:
            kw["scu_role"], kw["scp_role"] = s["roles"]
        ae.add_supported_context(*args, **kw)
        base_uids.add(s["abs"])
    _config.UNRESTRICTED_STORAGE_SERVICE = bool(acc["unrestricted"])
    try:
        server, port = harness.start_server(ae, _handlers(acc["handlers"]))
        try:
            for i, item in enumerate(block["rqs"]):
                _one_ac(port, item, base_uids, acc, i, T)
        finally:
            harness.stop_ae(ae, 5.0)
    finally:
        _config.UNRESTRICTED_STORAGE_SERVICE = saved
    if taps.State.excs:
        T.bump("acceptor_escaped_exceptions", len(taps.State.excs))
        e = taps.State.excs[0]
        T.notes["escaped exception in acceptor: %s %s %s" % (e["type"], e["where"], e["text"][:60])] = 1


def _one_ac(port, item, base_uids, acc, i, T):
    rq = item["rq"]
    raw_rq = ps38.encode(rq)
    T.bump("reference_rqs_sent")
    probs = ps38.conformance_problems(raw_rq)
    if probs:
        T.inconclusive.append("harness: reference RQ not conformant: %r" % probs[:3])
        return
    handed = set(base_uids)
    for pc in rq["pcs"]:
        handed.add(pc["abs"]); handed.update(pc["ts"])
    for s in rq["ui"]:
        for f in ("uid", "svc"):
            if f in s:
                handed.add(s[f])
        handed.update(s.get("rel", []))
    ctx = "acceptor=%s; rq: %d contexts ids=%r ui=%r called=%r calling=%r" % (
        repr({k: acc[k] for k in ("title", "max_pdu", "icu", "ivn", "unrestricted", "handlers")})[:300], len(rq["pcs"]),
        [pc["id"] for pc in rq["pcs"]][:6], [s["k"] for s in rq["ui"]], rq["called"], rq["calling"])
    try:
        p = vpeer.Peer.connect(port)
    except OSError as exc:
        T.inconclusive.append("harness: cannot connect to the acceptor: %r" % exc)
        return
    try:
        p.send_raw(raw_rq)
        raw = p.recv_pdu_bytes(8.0)
        if raw is None:
            T.bump("no_answer_to_reference_rq")
            T.notes["no answer within 8 s to a conformant RQ"] = 1
            return
        if raw == b"":
            T.bump("connection_closed_without_answer")
            return
        if raw[0] == 3:
            T.bump("ac_side_rejected_rj")
            return
        if raw[0] == 7:
            T.bump("ac_side_abort_instead_of_answer")
            return
        if raw[0] != 2:
            T.bump("ac_side_other_pdu")
            return
        check_ac(raw, rq, handed, T, ctx)
        if item["end"] == "release":
            p.send_pdu({"type": "RELRQ"})
            p.recv_pdu(2.0)
        else:
            p.abort()
        p.wait_eof(2.0)
    except OSError as exc:
        T.bump("socket_errors")
    finally:
        p.close()


# ------------------------------------------------------------------ case driver

def run_case(case):
    T = Tally()
    rng = rng_for(case["seed"], PID, case["side"], case["block"])
    t0 = time.time()
    sample = None
    if case["side"] == "rq":
        cfgs = [gen_rq_config(rng, i, case.get("tier", "quick")) for i in range(case["count"])]
        if case["block"] == 0:
            cfgs.extend(_fixed_rq_configs())
        only = case.get("only")
        for i, cfg in enumerate(cfgs):
            if only is not None and i != only:
                continue
            before = len(T.viol)
            run_rq_config(cfg, T)
            if len(T.viol) > before:
                T.viol[-1]["detail"] += " [config #%d of the block]" % i
        sample = {"side": "rq", "first_config": _short_cfg(cfgs[0])}
    else:
        block = gen_ac_block(rng, case["count"])
        run_ac_block(block, T)
        sample = {"side": "ac", "acceptor": repr({k: v for k, v in block["acceptor"].items() if k != "supported"})[:400],
                  "n_supported": len(block["acceptor"]["supported"]),
                  "first_rq_contexts": len(block["rqs"][0]["rq"]["pcs"])}
    T.counters["distinct_pdus"] = len(set(T.hashes))
    sample["unasserted_conformance_notes"] = T.notes
    sample["wall"] = round(time.time() - t0, 2)
    return {"key": sha(sorted(set(T.nontrivial))), "nontrivial": bool(T.nontrivial), "sample": sample,
            "violations": T.viol, "counters": T.counters, "pdu_hashes": sorted(set(T.nontrivial)),
            "notes": T.notes,
            "inconclusive": ("; ".join(T.inconclusive[:3]) or None)}


def _fixed_rq_configs():
    """Boundary configurations that every run must contain (block 0)."""
    V = "1.2.840.10008.1.1"
    base = {"side": "rq", "idx": 0, "enforce": False, "expect_reject": False, "title": "A", "title_via": "ctor",
            "called": "B", "max_pdu": None, "icu": None, "ivn": "__default__", "route": "add",
            "contexts": [{"abs": V, "ts": None}], "ext": [], "answer": "rj"}
    out = []

    def mk(**kw):
        c = dict(base); c.update(kw); out.append(c)
    for route in ("add", "setter", "arg"):
        mk(route=route, contexts=[{"abs": V, "ts": ["1.2.840.10008.1.2"]}] * 128)
        mk(route=route, contexts=[{"abs": V, "ts": ["1.2.840.10008.1.2"]}] * 129, expect_reject=True)
    mk(title=" " * 16, expect_reject=True)
    mk(called=" " * 16, expect_reject=True)
    mk(title="A" * 16, called=" " * 15 + "Z")
    mk(max_pdu=0); mk(max_pdu=1); mk(max_pdu=7); mk(max_pdu=2 ** 32 - 1)
    mk(icu="1." + "2" * 62, ivn="A" * 16)
    mk(ivn=None)
    mk(contexts=[{"abs": "1." + "3" * 62, "ts": ["1." + "4" * 62]}])
    # (found on the unchanged tree, kept deterministic) a context without transfer syntax; an empty UID under enforcement
    for route in ("add", "arg"):
        mk(route=route, contexts=[{"abs": V, "ts": []}], empty_ts_list=True)
        mk(route=route, enforce=True, contexts=[{"abs": "", "ts": ["1.2.840.10008.1.2"]}], nonconformant_uid="")
    mk(enforce=True, nonconformant_uid="", ext=[{"k": "sopext", "uid": "", "info": "00"}])
    mk(enforce=True, nonconformant_uid="", ext=[{"k": "role", "uid": "", "scu": 1, "scp": 1, "via": "build_role"}])
    mk(enforce=True, nonconformant_uid="1.02.3", contexts=[{"abs": "1.02.3", "ts": ["1.2.840.10008.1.2"]}])
    mk(ext=[{"k": "role", "uid": V, "scu": 1, "scp": 1, "via": "build_role"}, {"k": "async", "inv": 5, "perf": 5},
            {"k": "sopext", "uid": V, "info": "0102"}, {"k": "commonext", "uid": V, "svc": "1.2.840.10008.4.2", "rel": ["1.2.3"]},
            {"k": "uid_rq", "utype": 2, "resp": 1, "prim": "75", "sec": "70"}], answer="ac-release")
    return out


def extra_evidence(tier, results):
    hashes = set()
    notes = {}
    for r in results.values():
        hashes.update(r.get("pdu_hashes") or [])
        for k, n in (r.get("notes") or {}).items():
            notes[k] = notes.get(k, 0) + n
    return {"distinct_nontrivial": len(hashes),
            "note": "distinct_nontrivial = distinct non-trivial A-ASSOCIATE-RQ/AC byte strings captured from the real pynetdicom",
            "unasserted_conformance_notes": dict(sorted(notes.items(), key=lambda kv: -kv[1])[:25])}
