"""C25 - datasets arrive exactly as sent, for every transfer syntax and storage mode.

Workload: two (three for C-MOVE) REAL pynetdicom AEs on loopback.  The requestor sends generated pydicom datasets
(vlib.dsgen: all common VRs, nested / empty / undefined-length sequences, empty items, private blocks, empty, odd-length
and multi-valued values, 0..200 KB incl. a pixel-data-like bulk element) with send_c_store (Dataset object, file path,
file path in chunked-send mode), as Identifier of send_c_find / send_c_get / send_c_move and as the data sets of
N-SET / N-CREATE / N-ACTION / N-EVENT-REPORT; the acceptor's handlers answer with datasets too (C-FIND pending
identifiers, C-GET / C-MOVE C-STORE sub-operations, N-* reply data sets, N-GET Attribute List).

Observation points
  * the WIRE: taps.State.wire (every byte of every socket) -> P-DATA-TF PDUs -> PDVs (struct only) ->
    vlib.dimse_ref.reassemble -> the data-set bytes of every DIMSE message as the sender put them on the wire;
  * the receiving handler: event.encoded_dataset(), event.dataset / identifier / attribute_list / ..., the raw parameter
    of the request primitive, event.dataset_path + the bytes of that file (chunked-receive mode), event.file_meta;
  * the requestor: the (status, dataset) values returned / yielded by send_*.

Oracle (byte boundary; reference = pydicom's own writer/reader + zlib in vlib.dsgen, never pynetdicom):
  original --ref encode--> == wire bytes (inflated for the deflated syntax)            [sender half]
  file bytes after the file meta == wire bytes (chunked send: exactly; plain path send: after inflating)
  wire bytes == encoded_dataset(include_meta=False) == raw request parameter == temp-file bytes after its file meta
  encoded_dataset(include_meta=True) / temp file start with preamble + DICM + a group 0002 naming the negotiated
      transfer syntax and the SOP class / instance of the request
  decoded dataset seen by the handler / requestor == pydicom's own decode of the wire bytes under the negotiated
      transfer syntax (full-parse canonical form, Dataset.__eq__, and re-encoding to the same bytes).
"""
from __future__ import annotations

import os
import shutil
import struct
import tempfile
import threading
import time
import warnings

from vlib import dimse_ref, dsgen, harness, taps
from vlib.common import rng_for, sha

PID = "C25"
LEVEL = "exploration"
RULE = ("case = one association (transfer syntax x max PDU of requestor/acceptor/move destination x chunked-receive flag) "
        "carrying 6-9 operations; every data set of every message is one 'transfer' checked at the byte boundary "
        "(original -> wire -> handler/file -> decoded).  distinct = (operation, direction, transfer syntax, receive mode, "
        "send mode, size class, fragment-count class); non-trivial = the data set reached the wire and the peer.")
ASSUMPTIONS = [
    "pydicom's write_dataset/read_dataset (+ zlib raw deflate) are the reference codec: a dataset 'equals the original' "
    "when the wire carries pydicom's encoding of it under the negotiated transfer syntax and the receiver sees pydicom's "
    "decode of those bytes",
    "both AEs live in one process, so the global _config.STORE_RECV_CHUNKED_DATASET applies to every C-STORE receiver of "
    "the case (SCP, C-GET requestor, C-MOVE destination)",
    "loopback TCP delivers the sender's bytes unchanged (sender tx log is taken as 'the wire')",
    "datasets are those dsgen builds (valid values; pydicom writes odd-length UN values unpadded, which is kept)",
    "empty datasets are only used where the parameter is optional or the API is documented to omit it",
]
WORKERS = {"quick": 16, "thorough": 16}
CASE_TIMEOUT = 120
DIMSE_TIMEOUT = 30.0          # generous watchdog only: an operation that needed >= 80 % of it makes the case inconclusive
MAX_INCONCLUSIVE_FRAC = 0.05

TS_NAMES = ("implicit", "explicit", "big", "deflated")
CT = dsgen.CT
FIND = "1.2.840.10008.5.1.4.1.2.1.1"
MOVE = "1.2.840.10008.5.1.4.1.2.1.2"
GET = "1.2.840.10008.5.1.4.1.2.1.3"
FILM_SESSION = "1.2.840.10008.5.1.1.1"       # Print Management: N-CREATE/SET/GET/ACTION/EVENT-REPORT reach handlers
N_INSTANCE = dsgen.UID_ROOT + "77.1"

OPS = ("store-obj", "store-path", "store-chunked", "find", "get", "move", "n-set", "n-create", "n-action",
       "n-event-report", "n-get")
SIZE_MAX = {"empty": 64, "tiny": 2100, "small": 4600, "medium": 24000, "large": 76000, "huge": 205000}
# request command field, data-set parameter of the request primitive, Event property, response command field
OPINFO = {
    "find": ("C-FIND-RQ", "Identifier", "identifier", "C-FIND-RSP"),
    "get": ("C-GET-RQ", "Identifier", "identifier", "C-GET-RSP"),
    "move": ("C-MOVE-RQ", "Identifier", "identifier", "C-MOVE-RSP"),
    "n-set": ("N-SET-RQ", "ModificationList", "modification_list", "N-SET-RSP"),
    "n-create": ("N-CREATE-RQ", "AttributeList", "attribute_list", "N-CREATE-RSP"),
    "n-action": ("N-ACTION-RQ", "ActionInformation", "action_information", "N-ACTION-RSP"),
    "n-event-report": ("N-EVENT-REPORT-RQ", "EventInformation", "event_information", "N-EVENT-REPORT-RSP"),
    "n-get": ("N-GET-RQ", None, None, "N-GET-RSP"),
}

REQUIRE = {
    "transfers": 200, "store_transfers": 60, "store_chunked_recv": 20, "store_chunked_send": 8,
    "ts_implicit": 30, "ts_explicit": 30, "ts_big": 30, "ts_deflated": 30,
    "op_find": 8, "op_get": 8, "op_move": 4, "op_n-set": 6, "op_n-create": 6, "op_n-action": 6,
    "op_n-event-report": 6, "op_n-get": 6, "rsp_transfers": 40, "exact_multiple_transfers": 6,
    "multi_fragment_transfers": 60, "maxpdu_unlimited_transfers": 15, "decoded_compared": 200,
    "concurrent_store_cases": 5, "concurrent_store_transfers": 60,
}


def setup_worker():
    harness.quiet_logging()
    warnings.simplefilter("ignore")
    taps.install()


# ------------------------------------------------------------------------------------------------ cases

def _sizes_for(frag):
    """Size classes whose transfer needs <= ~2500 fragments of `frag` bytes (frag None = unlimited)."""
    return [s for s in dsgen.SIZES if frag is None or SIZE_MAX[s] / frag <= 2500]


def _pick_size(rng, allowed, weights):
    pool = [s for s in allowed if weights.get(s, 0) > 0]
    tot = sum(weights[s] for s in pool)
    x = rng.random() * tot
    for s in pool:
        x -= weights[s]
        if x <= 0:
            return s
    return pool[-1]


W_STORE = {"tiny": 1, "small": 3, "medium": 4, "large": 3, "huge": 2}
W_QUERY = {"empty": 0.25, "tiny": 3, "small": 4, "medium": 2, "large": 0.6}
W_RSP = {"tiny": 3, "small": 4, "medium": 2, "large": 0.5}
W_NOPT = {"empty": 1.2, "tiny": 3, "small": 4, "medium": 2, "large": 0.5}     # optional request data sets

PDU_PROFILES = [
    # (requestor max, acceptor max, move destination max)
    (16382, 16382, 16382), (0, 0, 0), (128, 128, 128), (0, 512, 16382), (1024, 0, 256), (256, 16382, 0),
    (16382, "div", 16382), (4096, "div", 4096), (0, "div", 0), (64, 64, 64), (16382, 7, 16382), (9, 16382, 9),
    (1000, 131, 517), (16382, 65536, 16382), (200000, 400000, 0),
]


def _max_of(v):
    return None if v in (0, "div") else v - 6        # bytes of data per fragment (None: no limit known)


def gen_case(seed, idx, ts, recv_chunked, profile, n_ops, rot, ts_map=None):
    rng = rng_for(seed, PID, "case", idx)
    sts = (ts_map or {}).get("store", ts)           # transfer syntax of the storage context
    rq_max, ac_max, dest_max = profile
    f_rq, f_ac, f_dest = _max_of(rq_max), _max_of(ac_max), _max_of(dest_max)
    to_acc = _sizes_for(f_ac)                       # requestor -> acceptor (limited by the acceptor's maximum)
    to_req = _sizes_for(f_rq)                       # acceptor -> requestor
    to_dest = _sizes_for(f_dest)
    ops = []
    n = 0

    def dsid():
        nonlocal n
        n += 1
        return seed * 1000000 + idx * 1000 + n

    names = []
    if ac_max == "div":
        names.append(rng.choice(["store-obj", "store-chunked", "store-chunked", "store-path"]))
        div = rng.choice([1, 1, 2, 2, 3, 4, 5, 8])
    else:
        names.append(rng.choice(["store-obj", "store-path"]))
        div = None
    names.append("store-chunked" if names[0] != "store-chunked" else rng.choice(["store-obj", "store-path"]))
    pool = [o for o in OPS if not o.startswith("store")]
    for k in range(max(0, n_ops - 2)):
        names.append(pool[(rot + k) % len(pool)])
    first = names[0]
    rest = names[1:]
    rng.shuffle(rest)
    for name in [first] + rest:
        op = {"op": name}
        if name.startswith("store"):
            allowed = to_acc if div is None or ops else ["small", "medium", "large"]
            op["size"] = _pick_size(rng, allowed, W_STORE)
            op["ds"] = dsid()
            if name == "store-obj":
                conv = {"implicit": ["implicit", "explicit", "deflated"], "explicit": ["explicit", "implicit", "deflated"],
                        "deflated": ["deflated", "explicit", "implicit"], "big": ["big"]}[sts]
                op["meta_ts"] = sts if rng.random() < 0.6 else rng.choice(conv)
            elif name == "store-path":
                # file syntax: the negotiated one, or (lossless VR-carrying source) explicit/deflated -> little endian
                op["file_ts"] = sts
                if sts in ("implicit", "explicit", "deflated") and rng.random() < 0.4:
                    op["file_ts"] = rng.choice(["explicit", "deflated"])
        elif name == "n-get":
            op["rsp"] = [{"size": _pick_size(rng, to_req, W_RSP), "ds": dsid()}]
        else:
            weights = W_NOPT if name in ("n-action", "n-event-report", "n-create") else W_QUERY
            op["size"] = _pick_size(rng, to_acc, weights)
            op["ds"] = dsid()
            if name == "find":
                op["rsp"] = [{"size": _pick_size(rng, to_req, W_RSP), "ds": dsid()} for _ in range(rng.choice([0, 1, 2, 3]))]
            elif name == "get":
                op["sub"] = [{"size": _pick_size(rng, to_req, W_STORE), "ds": dsid()} for _ in range(rng.choice([0, 1, 2]))]
            elif name == "move":
                op["sub"] = [{"size": _pick_size(rng, to_dest, W_STORE), "ds": dsid()} for _ in range(rng.choice([1, 1, 2]))]
            else:
                op["rsp"] = [{"size": _pick_size(rng, to_req, W_RSP), "ds": dsid()}] if rng.random() < 0.8 else []
        ops.append(op)
    case = {"seed": seed, "idx": idx, "ts": ts, "rq_max": rq_max, "ac_max": ac_max, "dest_max": dest_max,
            "recv_chunked": bool(recv_chunked), "ops": ops}
    if div:
        case["div"] = div
    if ts_map:
        case["ts_map"] = ts_map
    return case


def gen_cases(tier, seed):
    n_cases = 64 if tier == "quick" else 2000
    rng = rng_for(seed, PID, "plan", tier)
    profiles = list(PDU_PROFILES)
    cases = []
    for idx in range(n_cases):
        ts = TS_NAMES[idx % 4]
        recv_chunked = (idx // 4) % 2 == 1
        if idx % len(profiles) == 0:
            rng.shuffle(profiles)
        profile = profiles[idx % len(profiles)]
        if tier == "thorough" and rng.random() < 0.3:
            small = rng.choice([7, 8, 9, 16, 33, 100, 255, 1023])
            profile = (rng.choice([0, small, 16382]), rng.choice([small, "div", 0]), rng.choice([small, 16382]))
        ts_map = None
        if idx % 3 == 2:
            # every abstract syntax negotiated with its own transfer syntax (a mix-up of contexts becomes visible)
            ts_map = {k: rng.choice(TS_NAMES) for k in ("store", "find", "get", "move", "n")}
            ts_map[rng.choice(["store", "find", "n"])] = ts
        cases.append(gen_case(seed, idx, ts, recv_chunked, profile, rng.choice([6, 7, 8]), rng.randrange(64), ts_map))
        if idx % 5 == 3:
            cases[-1]["flip_recv_flag"] = True
    for i in range(6 if tier == "quick" else 100):
        cases.append({"concurrent": True, "seed": seed, "i": i, "k": rng.choice([3, 4, 6]), "m": 5, "max_pdu": rng.choice([0, 1024, 16382])})
    return cases


# ------------------------------------------------------------------------------------------------ wire

def pdvs_of(stream):
    """[(context id, control header, fragment)] of every PDV of every P-DATA-TF PDU in a byte stream (struct only);
    also returns the list of P-DATA PDU lengths (bytes following the 6-byte PDU header)."""
    out = []
    plens = []
    off = 0
    n = len(stream)
    while off + 6 <= n:
        ptype = stream[off]
        ln = struct.unpack_from(">I", stream, off + 2)[0]
        if off + 6 + ln > n:
            break
        if ptype == 4:
            plens.append(ln)
            p = off + 6
            end = off + 6 + ln
            while p + 6 <= end:
                il = struct.unpack_from(">I", stream, p)[0]
                out.append((stream[p + 4], stream[p + 5], stream[p + 6:p + 4 + il]))
                p += 4 + il
        off += 6 + ln
    return out, plens


class Wire:
    def __init__(self):
        self.msgs = {}      # role -> [message dict (+ 'frag_sizes')]
        self.problems = []

    def load(self, role, proxies):
        for proxy in proxies:
            stream = taps.wire_bytes(proxy.sid, "tx")
            pdvs, _ = pdvs_of(stream)
            msgs = dimse_ref.reassemble(pdvs)
            for p in msgs.problems:
                self.problems.append("%s: %s" % (role, p))
            for m in msgs:
                m["frag_sizes"] = [len(f) for (_c, h, f) in pdvs[m["first_index"]:m["last_index"] + 1] if not h & 1]
                self.msgs.setdefault(role, []).append(m)

    def find(self, role, name, **match):
        cf = dimse_ref.MESSAGE_TYPES[name].command_field
        out = []
        for m in self.msgs.get(role, []):
            c = m.get("command") or {}
            if c.get("CommandField") != cf:
                continue
            if all(c.get(k) == v for k, v in match.items()):
                out.append(m)
        return out


# ------------------------------------------------------------------------------------------------ run

def _bclass(expected, got):
    """Mechanism class of a byte difference."""
    if got is None:
        return "absent"
    if len(got) == 0:
        return "empty"
    if len(got) < len(expected) and expected.startswith(got):
        return "truncated"
    if len(got) < len(expected) and expected.endswith(got):
        return "head-missing"
    if len(got) > len(expected) and got.startswith(expected):
        return "extended"
    if len(got) == len(expected):
        return "same-length"
    return "other"


def _bdetail(what, expected, got):
    if got is None:
        return "%s: expected %d bytes, got nothing" % (what, len(expected))
    i = 0
    m = min(len(expected), len(got))
    while i < m and expected[i] == got[i]:
        i += 1
    return "%s: expected %d bytes, got %d; first difference at offset %d (expected %s, got %s)" % (
        what, len(expected), len(got), i, expected[i:i + 8].hex(), bytes(got[i:i + 8]).hex())


class Run:
    def __init__(self, case):
        self.case = case
        self.ts_map = case.get("ts_map") or {}
        self.viol = []
        self.cnt = {}
        self.notes = []
        self.obs = []              # handler observations
        self.lock = threading.Lock()
        self.plan = {}             # (kind, msg id) -> op
        self.inconclusive = None
        self.sigs = set()
        self.max_fragments = 0

    # -- helpers
    def bump(self, k, n=1):
        self.cnt[k] = self.cnt.get(k, 0) + n

    def violate(self, key, detail):
        if sum(1 for v in self.viol if v["key"] == key) < 2:
            self.viol.append({"key": key, "detail": detail[:700]})

    def ts_of(self, opname):
        """Transfer syntax (short name) of the presentation context an operation uses."""
        kind = "store" if opname.startswith("store") or opname == "sub" else "n" if opname.startswith("n-") else opname
        return self.ts_map.get(kind, self.case["ts"])

    def dataset(self, spec, ts, sop=None):
        """(copy for the code under test, reference plain bytes of an independent copy under transfer syntax `ts`)"""
        return dsgen.build(spec["ds"], spec["size"], sop=sop), dsgen.ref_plain(dsgen.build(spec["ds"], spec["size"], sop=sop), ts)

    def instance_uid(self, spec):
        return dsgen.UID_ROOT + "%d.%d" % (self.case["idx"] + 1, spec["ds"])

    # -- handler side
    def record(self, rec):
        with self.lock:
            rec["n"] = len(self.obs)
            self.obs.append(rec)

    def observe_store(self, event, side):
        """(the receive mode may be re-assigned at run time: with `flip_recv_flag` the handler runs while
        _config.STORE_RECV_CHUNKED_DATASET has the opposite value of the one in force when the request arrived)"""
        from pynetdicom import _config
        if not self.case.get("flip_recv_flag"):
            return self._observe_store(event, side)
        orig = _config.STORE_RECV_CHUNKED_DATASET
        _config.STORE_RECV_CHUNKED_DATASET = not orig
        try:
            return self._observe_store(event, side)
        finally:
            _config.STORE_RECV_CHUNKED_DATASET = orig

    def _observe_store(self, event, side):
        rec = {"kind": "store", "side": side}
        try:
            req = event.request
            rec["msg_id"] = req.MessageID
            rec["instance"] = str(req.AffectedSOPInstanceUID)
            rec["sop_class"] = str(req.AffectedSOPClassUID)
            rec["ctx_ts"] = str(event.context.transfer_syntax)
            try:
                rec["enc"] = event.encoded_dataset(include_meta=False)
            except Exception as exc:
                rec["enc_exc"] = repr(exc)
            try:
                rec["enc_meta"] = event.encoded_dataset()
            except Exception as exc:
                rec["enc_meta_exc"] = repr(exc)
            path = None
            try:
                path = event.dataset_path
            except AttributeError:
                path = None
            if path is not None:
                rec["path"] = str(path)
                try:
                    with open(path, "rb") as f:
                        rec["file"] = f.read()
                except Exception as exc:
                    rec["file_exc"] = repr(exc)
            try:
                ds = event.dataset
                rec["canon"] = dsgen.canon(ds)
                rec["ds"] = ds
                rec["again_same"] = dsgen.canon(event.dataset) == rec["canon"]
            except Exception as exc:
                rec["ds_exc"] = repr(exc)
        except Exception as exc:       # never let the monitor change the exchange
            rec["observer_exc"] = repr(exc)
        self.record(rec)
        return 0x0000

    def observe_param(self, event, kind):
        _, attr, prop, _ = OPINFO[kind]
        rec = {"kind": kind, "side": "scp"}
        try:
            rec["msg_id"] = event.request.MessageID
            rec["ctx_ts"] = str(event.context.transfer_syntax)
            if attr:
                raw = getattr(event.request, attr, None)
                rec["raw"] = None if raw is None else raw.getvalue()
                try:
                    ds = getattr(event, prop)
                    rec["canon"] = dsgen.canon(ds)
                    rec["ds"] = ds
                    rec["again_same"] = dsgen.canon(getattr(event, prop)) == rec["canon"]
                except Exception as exc:
                    rec["ds_exc"] = repr(exc)
        except Exception as exc:
            rec["observer_exc"] = repr(exc)
        self.record(rec)
        return self.plan.get((kind, rec.get("msg_id")))

    def handlers(self, dest_port):
        from pynetdicom import evt
        run = self

        def on_store(event):
            return run.observe_store(event, "scp")

        def on_find(event):
            op = run.observe_param(event, "find")
            for r in (op or {}).get("_rsp_send", []):
                yield 0xFF00, r

        def on_get(event):
            op = run.observe_param(event, "get")
            subs = (op or {}).get("_sub_send", [])
            yield len(subs)
            for ds in subs:
                yield 0xFF00, ds

        def on_move(event):
            from pynetdicom import build_context
            op = run.observe_param(event, "move")
            subs = (op or {}).get("_sub_send", [])
            yield ("127.0.0.1", dest_port[0], {"contexts": [build_context(CT, dsgen.TS[run.ts_of("store")])],
                                               "max_pdu": 16382})
            yield len(subs)
            for ds in subs:
                yield 0xFF00, ds

        def n_handler(kind):
            def h(event):
                op = run.observe_param(event, kind)
                rsp = (op or {}).get("_rsp_send", [])
                return 0x0000, (rsp[0] if rsp else None)
            return h

        return [(evt.EVT_C_STORE, on_store), (evt.EVT_C_FIND, on_find), (evt.EVT_C_GET, on_get),
                (evt.EVT_C_MOVE, on_move), (evt.EVT_N_SET, n_handler("n-set")),
                (evt.EVT_N_CREATE, n_handler("n-create")), (evt.EVT_N_ACTION, n_handler("n-action")),
                (evt.EVT_N_EVENT_REPORT, n_handler("n-event-report")), (evt.EVT_N_GET, n_handler("n-get"))]

    # -- preparation of one op (datasets for both sides)
    def prepare(self, op, msg_id, tmp):
        from pydicom.dataset import FileMetaDataset
        from pydicom.uid import UID
        name = op["op"]
        op["_msg_id"] = msg_id
        ts = op["_ts"] = self.ts_of(name)
        ts_store = self.ts_of("store")
        if name.startswith("store"):
            inst = self.instance_uid(op)
            op["_instance"] = inst
            send, plain = self.dataset(op, ts, sop=(CT, inst))
            op["_plain"] = plain
            if name == "store-obj":
                send.file_meta = FileMetaDataset()
                send.file_meta.TransferSyntaxUID = UID(dsgen.TS[op.get("meta_ts", ts)])
                op["_send"] = send
                op["_stream_len"] = len(dsgen.ref_stream(plain, ts))
            else:
                file_ts = op.get("file_ts", ts)
                fplain = dsgen.ref_plain(dsgen.build(op["ds"], op["size"], sop=(CT, inst)), file_ts)
                stream = dsgen.ref_stream(fplain, file_ts)
                path = os.path.join(tmp, "send_%d.dcm" % msg_id)
                frng = rng_for(op["ds"], PID, "file")
                dsgen.write_file(path, stream, file_ts, CT, inst,
                                 preamble=None if frng.random() < 0.5 else frng.randbytes(128),
                                 extra_meta=frng.choice([0, 0, 1, 2, 3]))
                op["_send"] = path
                op["_file_stream"] = stream
                op["_stream_len"] = len(stream) if file_ts == ts else len(dsgen.ref_stream(plain, ts))
            return
        if "ds" in op:
            op["_send"], op["_plain"] = self.dataset(op, ts)
        for key in ("rsp", "sub"):
            sends = []
            for spec in op.get(key, []):
                sop = None
                if key == "sub":
                    spec["_instance"] = self.instance_uid(spec)
                    sop = (CT, spec["_instance"])
                ds, plain = self.dataset(spec, ts_store if key == "sub" else ts, sop=sop)
                spec["_plain"] = plain
                if key == "sub":
                    ds.file_meta = FileMetaDataset()
                    ds.file_meta.TransferSyntaxUID = UID(dsgen.TS[ts_store])
                sends.append(ds)
            if key in op:
                op["_%s_send" % key] = sends
        self.plan[(name, msg_id)] = op

    # -- requestor side of one op
    def execute(self, assoc, op):
        from pynetdicom import _config
        name = op["op"]
        mid = op["_msg_id"]
        res = {"exc": None, "status": None, "returned": [], "t": 0.0}
        op["_res"] = res
        t0 = time.time()
        try:
            if name.startswith("store"):
                prev = _config.STORE_SEND_CHUNKED_DATASET
                _config.STORE_SEND_CHUNKED_DATASET = (name == "store-chunked")
                try:
                    st = assoc.send_c_store(op["_send"], msg_id=mid)
                finally:
                    _config.STORE_SEND_CHUNKED_DATASET = prev
                res["status"] = st.get("Status") if st is not None else None
            elif name in ("find", "get", "move"):
                if name == "find":
                    gen = assoc.send_c_find(op["_send"], FIND, msg_id=mid)
                elif name == "get":
                    gen = assoc.send_c_get(op["_send"], GET, msg_id=mid)
                else:
                    gen = assoc.send_c_move(op["_send"], "DEST", MOVE, msg_id=mid)
                for status, ident in gen:
                    code = status.get("Status") if status is not None else None
                    res["returned"].append((code, ident))
                    res["status"] = code
            else:
                if name == "n-set":
                    st, ds = assoc.send_n_set(op["_send"], FILM_SESSION, N_INSTANCE, msg_id=mid)
                elif name == "n-create":
                    st, ds = assoc.send_n_create(op["_send"], FILM_SESSION, N_INSTANCE, msg_id=mid)
                elif name == "n-action":
                    st, ds = assoc.send_n_action(op["_send"], 1, FILM_SESSION, N_INSTANCE, msg_id=mid)
                elif name == "n-event-report":
                    st, ds = assoc.send_n_event_report(op["_send"], 1, FILM_SESSION, N_INSTANCE, msg_id=mid)
                else:
                    st, ds = assoc.send_n_get([0x00100010, 0x00100020], FILM_SESSION, N_INSTANCE, msg_id=mid)
                res["status"] = st.get("Status") if st is not None else None
                res["returned"].append((res["status"], ds))
        except Exception as exc:
            res["exc"] = "%s: %s" % (type(exc).__name__, str(exc)[:300])
        res["t"] = time.time() - t0

    # ------------------------------------------------------------------------------------------------ oracles
    def sig(self, *parts):
        self.sigs.add("|".join(str(p) for p in parts))

    def frag_class(self, m):
        k = len(m["frag_sizes"]) if m else 0
        return "0" if k == 0 else "1" if k == 1 else "2-9" if k < 10 else "10-99" if k < 100 else "100+"

    def count_wire(self, m, limit):
        """Workload-shape counters of one data-set-carrying message."""
        sizes = m["frag_sizes"]
        total = sum(sizes)
        self.bump("wire_dataset_bytes", total)
        if len(sizes) > 1:
            self.bump("multi_fragment_transfers")
        if limit not in (0, None) and limit - 6 >= 16 and sizes and all(x == limit - 6 for x in sizes):
            self.bump("exact_multiple_transfers")       # data set length = k * fragment size, no short last fragment
        if limit == 0:
            self.bump("maxpdu_unlimited_transfers")
        if total % 2:
            self.bump("odd_length_streams")
        self.max_fragments = max(self.max_fragments, len(sizes))

    def check_decoded(self, label, param, ts, wire_plain, canon_seen, ds_seen, exc, again_same=True):
        """decoded dataset seen by handler/requestor == pydicom's own decode of the wire bytes."""
        if exc is not None:
            self.violate("%s|%s-undecodable|%s" % (label, param, ts), "accessing the decoded data set raised %s" % exc)
            return
        try:
            expected = dsgen.ref_decode(wire_plain, ts)
            exp_canon = dsgen.canon(expected)
        except Exception as e:
            self.notes.append("%s: reference decode of the wire bytes failed: %r" % (label, e))
            self.bump("reference_decode_failed")
            return
        self.bump("decoded_compared")
        d = dsgen.diff(exp_canon, canon_seen)
        if d:
            self.violate("%s|%s-differs|%s" % (label, param, ts), "decoded data set != pydicom's decode of the sent bytes: %s" % d)
            return
        if not again_same:
            self.violate("%s|%s-differs|%s|second-access" % (label, param, ts), "reading the property a second time gave another dataset")
        try:
            plain_ds = ds_seen
            if type(ds_seen).__name__ != "Dataset":       # FileDataset (chunked receive): compare the data set part
                from pydicom.dataset import Dataset
                plain_ds = Dataset()
                for elem in ds_seen:
                    if elem.tag.group != 2:
                        plain_ds.add(elem)
            if not (expected == plain_ds):
                self.violate("%s|%s-differs|%s|pydicom-eq" % (label, param, ts), "Dataset.__eq__ is False although canonical forms agree")
            again = dsgen.ref_plain(plain_ds, ts)
            if again != wire_plain:
                self.violate("%s|%s-reencodes-differently|%s" % (label, param, ts), _bdetail("re-encoding the received data set", wire_plain, again))
        except Exception as e:
            self.violate("%s|%s-differs|%s|compare-raises" % (label, param, ts), "comparing / re-encoding the received data set raised %r" % (e,))

    def wire_plain(self, label, ts, stream):
        try:
            return dsgen.plain_of(stream, ts)
        except dsgen.RefProblem as e:
            self.violate("%s|%s|wire-not-decodable" % (label, ts), "data set on the wire: %s" % e)
            return None

    def check_store(self, wire, label, sender_role, limit, instance, ref_plain, obs_side, sendmode, file_stream=None,
                    status=None, size=None):
        """One C-STORE data set: original/file -> wire -> handler (bytes, file, decoded)."""
        ts = self.ts_of("store")
        ts_uid = dsgen.TS[ts]
        recvmode = "chunked-recv" if self.case["recv_chunked"] else "memory-recv"
        self.bump("transfers"); self.bump("store_transfers"); self.bump("ts_" + ts)
        if self.case["recv_chunked"]:
            self.bump("store_chunked_recv")
        if sendmode == "chunked-send":
            self.bump("store_chunked_send")
        msgs = wire.find(sender_role, "C-STORE-RQ", AffectedSOPInstanceUID=instance)
        recs = [o for o in self.obs if o["kind"] == "store" and o.get("instance") == instance and o["side"] == obs_side]
        if not msgs or msgs[0]["data_set_bytes"] is None or not msgs[0]["complete"]:
            self.violate("%s|not-delivered|%s|no-data-set-on-the-wire" % (label, ts),
                         "no complete C-STORE-RQ with a data set for instance %s on the sender's wire (status %r)" % (instance, status))
            return
        m = msgs[0]
        W = m["data_set_bytes"]
        self.count_wire(m, limit)
        self.sig(label, ts, recvmode, sendmode, size, self.frag_class(m))
        # ---- sender half
        if sendmode == "chunked-send":
            if W != file_stream:
                self.violate("store|chunked-send|wire-vs-file-differ|%s|%s" % (ts, _bclass(file_stream, W)),
                             _bdetail("wire bytes vs file bytes after the file meta", file_stream, W))
        wp = self.wire_plain(label, ts, W)
        if wp is not None and wp != ref_plain:
            self.violate("%s|%s|wire-vs-reference-differ|%s|%s" % (label, ts, sendmode, _bclass(ref_plain, wp)),
                         _bdetail("data set on the wire vs pydicom's encoding of the original", ref_plain, wp))
        # ---- receiver half
        if not recs:
            self.violate("%s|not-delivered|%s|handler-not-invoked" % (label, ts),
                         "the C-STORE handler never ran for instance %s (status %r)" % (instance, status))
            return
        r = recs[0]
        if "observer_exc" in r:
            self.inconclusive = "store observer failed: %s" % r["observer_exc"]
            return
        self.bump("store_handler_observed")
        if r.get("ctx_ts") != ts_uid:
            self.violate("%s|context-transfer-syntax-wrong|%s" % (label, ts), "event.context.transfer_syntax = %r" % r.get("ctx_ts"))
        enc = r.get("enc")
        if "enc_exc" in r:
            self.violate("%s|%s|encoded_dataset-raises" % (label, recvmode), r["enc_exc"])
        elif enc != W:
            if self.case["recv_chunked"] and enc == b"":
                self.violate("store|chunked-recv|encoded_dataset-empty",
                             "STORE_RECV_CHUNKED_DATASET=True: event.encoded_dataset(include_meta=False) returned b'' but the peer "
                             "sent %d data-set bytes (%s, %s)" % (len(W), label, ts))
            else:
                self.violate("%s|%s|wire-vs-handler-bytes-differ|%s|%s" % (label, ts, recvmode, _bclass(W, enc)),
                             _bdetail("event.encoded_dataset(include_meta=False) vs wire", W, enc))
        else:
            self.bump("encoded_dataset_equal")
        em = r.get("enc_meta")
        if "enc_meta_exc" in r:
            self.violate("%s|%s|encoded_dataset-with-meta-raises" % (label, recvmode), r["enc_meta_exc"])
        elif em is not None:
            self.check_file_format("%s|%s|encoded_dataset-with-meta" % (label, recvmode), ts, em, W, instance,
                                   tolerate_empty=self.case["recv_chunked"])
        if self.case["recv_chunked"]:
            if "file" not in r:
                self.violate("%s|chunked-recv|no-dataset-file|%s" % (label, ts),
                             "event.dataset_path=%r %s" % (r.get("path"), r.get("file_exc", "")))
            else:
                self.bump("recv_files_checked")
                self.check_file_format("%s|chunked-recv|file" % label, ts, r["file"], W, instance)
                # observation only (not part of the property): is the temporary file removed after the handler?
                if r.get("path") and os.path.exists(r["path"]):
                    self.bump("recv_tempfile_left_behind_" + obs_side)
                else:
                    self.bump("recv_tempfile_deleted_" + obs_side)
        elif r.get("path") is not None:
            self.notes.append("dataset_path=%r although chunked receive is off" % r.get("path"))
        if wp is not None:
            self.check_decoded(label, "dataset", ts, wp, r.get("canon"), r.get("ds"), r.get("ds_exc"), r.get("again_same", True))

    def check_file_format(self, keyhead, ts, data, W, instance, tolerate_empty=False):
        """preamble + DICM + group 0002 (right transfer syntax / SOP class / instance) + exactly the wire bytes."""
        try:
            meta, off = dsgen.split_file(data)
        except Exception as e:
            self.violate("%s-malformed|%s" % (keyhead, ts), "not a DICOM File Format byte string: %r" % (e,))
            return
        if data[:128] != b"\x00" * 128:
            self.violate("%s-malformed|%s|preamble" % (keyhead, ts), "preamble is not 128 zero bytes")
        body = data[off:]
        if body != W:
            if tolerate_empty and body == b"":
                pass            # already reported as encoded_dataset-empty
            else:
                self.violate("%s-vs-wire-differ|%s|%s" % (keyhead, ts, _bclass(W, body)),
                             _bdetail("bytes after the file meta vs wire", W, body))
        got = (str(meta.get("TransferSyntaxUID", "")), str(meta.get("MediaStorageSOPClassUID", "")),
               str(meta.get("MediaStorageSOPInstanceUID", "")))
        if got != (dsgen.TS[ts], CT, instance):
            self.violate("%s-meta-wrong|%s" % (keyhead, ts), "file meta (ts, class, instance) = %r, expected %r" % (
                got, (dsgen.TS[ts], CT, instance)))

    def check_request_param(self, wire, op):
        """Identifier / Modification List / ... of a request: original -> wire -> handler."""
        name = op["op"]
        rq, attr, prop, _ = OPINFO[name]
        ts = op["_ts"]
        mid = op["_msg_id"]
        ref = op["_plain"]
        res = op["_res"]
        self.bump("transfers"); self.bump("ts_" + ts); self.bump("rq_param_transfers")
        msgs = wire.find("req", rq, MessageID=mid)
        recs = [o for o in self.obs if o["kind"] == name and o.get("msg_id") == mid]
        if not msgs:
            self.violate("%s|not-delivered|%s|request-not-on-the-wire" % (name, ts), "no %s with MessageID %d on the wire; send raised %r" % (rq, mid, res["exc"]))
            return
        m = msgs[0]
        W = m["data_set_bytes"]
        self.sig(name, "rq", ts, op.get("size"), self.frag_class(m))
        if ref == b"":
            # empty original: nothing (or an empty data set) may be on the wire and the handler must see an empty dataset
            self.bump("empty_datasets")
            if W not in (None, b""):
                # (the deflated syntax may carry an empty deflate stream: still an empty data set)
                wp = self.wire_plain(name, ts, W)
                if wp not in (None, b""):
                    self.violate("%s|%s|wire-vs-reference-differ|empty-original" % (name, ts),
                                 "empty dataset sent as %d bytes (%d after inflating)" % (len(W), len(wp)))
            if not recs:
                self.violate("%s|not-delivered|%s|handler-not-invoked|empty-dataset" % (name, ts),
                             "handler never ran for an empty %s (status %r, exc %r)" % (attr, res["status"], res["exc"]))
                return
            r = recs[0]
            if r.get("ds_exc"):
                self.violate("%s|%s-undecodable|%s|empty-dataset" % (name, prop, ts), r["ds_exc"])
            elif r.get("canon") != ():
                self.violate("%s|%s-differs|%s|empty-dataset" % (name, prop, ts), "handler saw %r for an empty dataset" % (r.get("canon"),))
            else:
                self.bump("decoded_compared")
            return
        if W is None or not m["complete"]:
            self.violate("%s|not-delivered|%s|no-data-set-on-the-wire" % (name, ts),
                         "%s MessageID %d carries no complete data set although %d bytes were to be sent" % (rq, mid, len(ref)))
            return
        self.count_wire(m, self.limit_to_acc)
        wp = self.wire_plain(name, ts, W)
        if wp is not None and wp != ref:
            self.violate("%s|%s|wire-vs-reference-differ|%s" % (name, ts, _bclass(ref, wp)),
                         _bdetail("%s on the wire vs pydicom's encoding of the original" % attr, ref, wp))
        if not recs:
            self.violate("%s|not-delivered|%s|handler-not-invoked" % (name, ts),
                         "the handler never ran for %s MessageID %d (status %r, exc %r)" % (rq, mid, res["status"], res["exc"]))
            return
        r = recs[0]
        if "observer_exc" in r:
            self.inconclusive = "observer failed: %s" % r["observer_exc"]
            return
        if r.get("ctx_ts") != dsgen.TS[ts]:
            self.violate("%s|context-transfer-syntax-wrong|%s" % (name, ts), "event.context.transfer_syntax = %r" % r.get("ctx_ts"))
        if r.get("raw") != W:
            self.violate("%s|%s|wire-vs-handler-bytes-differ|%s" % (name, ts, _bclass(W, r.get("raw"))),
                         _bdetail("request.%s vs wire" % attr, W, r.get("raw")))
        if wp is not None:
            self.check_decoded(name, prop, ts, wp, r.get("canon"), r.get("ds"), r.get("ds_exc"), r.get("again_same", True))

    def check_responses(self, wire, op):
        """Reply data sets: handler's original -> wire -> what the requestor's send_* returned."""
        name = op["op"]
        _, _, _, rsp_name = OPINFO[name]
        ts = op["_ts"]
        mid = op["_msg_id"]
        res = op["_res"]
        label = name + "-rsp"
        specs = op.get("rsp", [])
        wire_msgs = [m for m in wire.find("acc", rsp_name, MessageIDBeingRespondedTo=mid) if m["data_set_bytes"] is not None]
        returned = [(code, ds) for (code, ds) in res["returned"] if ds is not None and (name != "find" or code in (0xFF00, 0xFF01))]
        if name in ("get", "move"):
            return        # their response identifiers only carry failed-instance lists (none here)
        nonempty = [s for s in specs if s["_plain"] != b""]
        for k, spec in enumerate(nonempty):
            self.bump("transfers"); self.bump("ts_" + ts); self.bump("rsp_transfers")
            ref = spec["_plain"]
            if k >= len(wire_msgs) or not wire_msgs[k]["complete"]:
                self.violate("%s|not-delivered|%s|no-data-set-on-the-wire" % (label, ts),
                             "reply data set #%d of %s MessageID %d never reached the wire (status %r, exc %r)" % (
                                 k, rsp_name, mid, res["status"], res["exc"]))
                continue
            m = wire_msgs[k]
            W = m["data_set_bytes"]
            self.count_wire(m, self.limit_to_req)
            self.sig(label, ts, spec["size"], self.frag_class(m))
            wp = self.wire_plain(label, ts, W)
            if wp is None:
                continue
            if wp != ref:
                self.violate("%s|%s|wire-vs-reference-differ|%s" % (label, ts, _bclass(ref, wp)),
                             _bdetail("reply data set on the wire vs pydicom's encoding of the handler's dataset", ref, wp))
            if k >= len(returned):
                self.violate("%s|not-delivered|%s|not-returned-to-requestor" % (label, ts),
                             "send_* returned %d data sets, reply #%d missing (statuses %r, exc %r)" % (
                                 len(returned), k, [c for c, _ in res["returned"]], res["exc"]))
                continue
            ds = returned[k][1]
            try:
                canon = dsgen.canon(ds)
                exc = None
            except Exception as e:
                canon, exc = None, repr(e)
            self.check_decoded(label, "dataset", ts, wp, canon, ds, exc)
        if len(wire_msgs) > len(nonempty):
            self.notes.append("%s: %d reply data sets on the wire, %d planned" % (label, len(wire_msgs), len(nonempty)))


def _proxies(pred):
    return [p for p in taps.State.socks if pred(p.assoc)]


def run_concurrent_stores(case):
    """K associations of one requestor AE store different data sets at the same time to one SCP (own thread each, tiny switch
    interval): what the handler got for a SOP Instance UID must be the data set that was sent under that UID."""
    import hashlib
    import sys
    import threading
    from pydicom.dataset import Dataset, FileMetaDataset
    from pydicom.uid import ExplicitVRLittleEndian, ImplicitVRLittleEndian
    from pynetdicom import evt
    taps.reset()
    rng = rng_for(case["seed"], PID, "concurrent", case["i"])
    K, M = case["k"], case["m"]
    got = {}
    glock = threading.Lock()

    def on_store(event):
        ds = event.dataset
        v = ds[(0x0011, 0x1001)].value if (0x0011, 0x1001) in ds else None
        payload = bytes(v) if v else b""
        with glock:
            got.setdefault(str(event.request.AffectedSOPInstanceUID), []).append(
                (str(ds.get("SOPInstanceUID")), str(ds.get("PatientID")), len(payload), hashlib.sha1(payload).hexdigest()))
        return 0x0000
    tsu = [ImplicitVRLittleEndian, ExplicitVRLittleEndian]
    scp = harness.make_ae("C25-SCP", timeouts=(5.0, 6.0, 8.0, 5.0), supported=[(CT, tsu)], max_pdu=case["max_pdu"])
    server, port = harness.start_server(scp, [(evt.EVT_C_STORE, on_store)])
    scu = harness.make_ae("C25-SCU", timeouts=(5.0, 6.0, 8.0, 5.0), requested=[(CT, tsu)])
    plans, sent, errors = [], {}, []
    for a in range(K):
        plan = []
        for m in range(M):
            uid = "1.2.826.0.1.3680043.9.3811.25.%d.%d" % (a + 1, m + 1)
            n = rng.choice([0, 10, 300, 4000, 20000])
            payload = bytes([(a * 31 + m * 7 + i) % 251 for i in range(n)])
            ds = Dataset()
            ds.SOPClassUID = CT
            ds.SOPInstanceUID = uid
            ds.PatientID = "A%dM%d" % (a, m)
            ds.add_new((0x0011, 0x0010), "LO", "VERIF")
            ds.add_new((0x0011, 0x1001), "OB", payload)
            ds.file_meta = FileMetaDataset()
            ds.file_meta.TransferSyntaxUID = rng.choice(tsu)
            plan.append(ds)
            sent[uid] = (uid, ds.PatientID, len(payload), hashlib.sha1(payload).hexdigest())
        plans.append(plan)
    barrier = threading.Barrier(K)

    def worker(a):
        try:
            assoc = scu.associate("127.0.0.1", port)
            if not assoc.is_established:
                errors.append("association %d not established" % a)
                return
            barrier.wait(5.0)
            for ds in plans[a]:
                st = assoc.send_c_store(ds)
                if getattr(st, "Status", None) != 0x0000:
                    errors.append("association %d: status %r for %s" % (a, getattr(st, "Status", None), ds.SOPInstanceUID))
            assoc.release()
        except Exception as exc:
            errors.append("thread %d: %r" % (a, exc))
    old = sys.getswitchinterval()
    sys.setswitchinterval(1e-5)
    try:
        ths = [threading.Thread(target=worker, args=(a,), daemon=True) for a in range(K)]
        for t in ths:
            t.start()
        for t in ths:
            t.join(60.0)
    finally:
        sys.setswitchinterval(old)
    taps.wait_quiet(5.0)
    harness.stop_ae(scu)
    harness.stop_ae(scp)
    viol = []
    for uid, want in sent.items():
        seen = got.get(uid) or []
        if not seen:
            viol.append({"key": "concurrent-stores|dataset-not-delivered", "detail": "%s was sent, the handler never saw it; errors %r" % (uid, errors[:3])})
        elif any(x != want for x in seen):
            viol.append({"key": "concurrent-stores|dataset-differs-or-belongs-to-another-association",
                         "detail": "sent %r, handler saw %r (%d associations storing at the same time)" % (want, seen, K)})
    counters = {"concurrent_store_cases": 1, "concurrent_store_transfers": sum(len(v) for v in got.values())}
    return {"key": sha(["concurrent", case["i"], K, M]), "nontrivial": bool(got), "sample": {"kind": "concurrent-stores", "associations": K,
            "stores_each": M, "max_pdu": case["max_pdu"], "errors": errors[:3]}, "violations": viol[:5], "counters": counters,
            "inconclusive": ("errors: %r" % errors[:3]) if errors and not viol else None}


def run_case(case):
    if case.get("concurrent"):
        return run_concurrent_stores(case)
    from pynetdicom import _config, build_context, build_role, evt

    run = Run(case)
    ts = case["ts"]
    uid_of = {CT: dsgen.TS[run.ts_of("store")], FIND: dsgen.TS[run.ts_of("find")], GET: dsgen.TS[run.ts_of("get")],
              MOVE: dsgen.TS[run.ts_of("move")], FILM_SESSION: dsgen.TS[run.ts_of("n-set")]}
    taps.reset()
    tmp = tempfile.mkdtemp(prefix="c25_")
    old_tmpdir = tempfile.tempdir
    old_flags = (_config.STORE_RECV_CHUNKED_DATASET, _config.STORE_SEND_CHUNKED_DATASET)
    aes = []
    t0 = time.time()
    sample = {"ts": ts, "ts_map": case.get("ts_map"), "rq_max": case["rq_max"], "ac_max": case["ac_max"], "recv_chunked": case["recv_chunked"],
              "ops": [o["op"] for o in case["ops"]]}
    try:
        tempfile.tempdir = tmp                      # pynetdicom's NamedTemporaryFile lands in the case directory
        _config.STORE_RECV_CHUNKED_DATASET = bool(case["recv_chunked"])
        _config.STORE_SEND_CHUNKED_DATASET = False
        ops = case["ops"]
        for i, op in enumerate(ops):
            run.prepare(op, 11 + 7 * i, tmp)
        # ---- maximum PDU sizes ("div": the first store's data set is an exact multiple of the fragment size)
        ac_max = case["ac_max"]
        if ac_max == "div":
            n = ops[0]["_stream_len"]
            k = case.get("div", 2)
            while k < 64 and (n % k or n // k < 2):
                k += 1
            if n % k or n // k < 2:
                k = 1
            ac_max = n // k + 6
            sample["div"] = {"stream_len": n, "fragments": k, "ac_max": ac_max}
        rq_max = case["rq_max"]
        dest_max = case["dest_max"]
        run.limit_to_acc, run.limit_to_req, run.limit_to_dest = ac_max, rq_max, dest_max
        timeouts = (10.0, DIMSE_TIMEOUT, 30.0, 10.0)
        # ---- acceptor
        scp = harness.make_ae("SCP", timeouts=timeouts, max_pdu=ac_max)
        aes.append(scp)
        scp.add_supported_context(CT, [uid_of[CT]], scu_role=True, scp_role=True)
        for uid in (FIND, GET, MOVE, FILM_SESSION):
            scp.add_supported_context(uid, [uid_of[uid]])
        dest_port = [0]
        _, port = harness.start_server(scp, run.handlers(dest_port))
        # ---- move destination
        if any(o["op"] == "move" for o in ops):
            dest = harness.make_ae("DEST", timeouts=timeouts, max_pdu=dest_max)
            aes.append(dest)
            dest.add_supported_context(CT, [uid_of[CT]])
            _, dest_port[0] = harness.start_server(dest, [(evt.EVT_C_STORE, lambda e: run.observe_store(e, "dest"))])
        # ---- requestor
        scu = harness.make_ae("SCU", timeouts=timeouts, max_pdu=rq_max)
        aes.append(scu)
        contexts = [build_context(uid, [uid_of[uid]]) for uid in (CT, FIND, GET, MOVE, FILM_SESSION)]
        role = build_role(CT, scu_role=True, scp_role=True)
        assoc = scu.associate("127.0.0.1", port, contexts=contexts, ae_title="SCP", max_pdu=rq_max, ext_neg=[role],
                              evt_handlers=[(evt.EVT_C_STORE, lambda e: run.observe_store(e, "req"))])
        if not assoc.is_established:
            return {"key": "no-assoc", "nontrivial": False, "violations": [], "counters": {}, "sample": sample,
                    "inconclusive": "association not established"}
        accepted = {str(c.abstract_syntax): str(c.transfer_syntax[0]) for c in assoc.accepted_contexts}
        if any(accepted.get(uid) != uid_of[uid] for uid in (CT, FIND, GET, MOVE, FILM_SESSION)):
            assoc.abort()
            return {"key": "no-contexts", "nontrivial": False, "violations": [], "counters": {}, "sample": sample,
                    "inconclusive": "contexts not accepted as requested: %r" % accepted}
        for op in ops:
            if not assoc.is_established:
                op["_res"] = {"exc": "association no longer established", "status": None, "returned": [], "t": 0.0}
                continue
            run.execute(assoc, op)
            run.bump("op_" + op["op"])
        established_at_end = assoc.is_established
        slow = [(o["op"], round(o["_res"]["t"], 1)) for o in ops if o["_res"]["t"] >= 0.8 * DIMSE_TIMEOUT]
        if slow:
            # wall-clock trouble (machine load), not evidence about the property
            run.inconclusive = "operations ran into the DIMSE timeout watchdog: %r" % slow
        if assoc.is_established:
            assoc.release()
        for ae in aes:
            harness.stop_ae(ae)
        taps.wait_quiet(8.0)

        # ---- the wire
        wire = Wire()
        wire.load("req", _proxies(lambda a: a.ae is scu and a.is_requestor))
        wire.load("acc", _proxies(lambda a: a.ae is scp and a.is_acceptor))
        wire.load("mvreq", _proxies(lambda a: a.ae is scp and a.is_requestor))
        for p in wire.problems[:3]:
            run.notes.append("wire: " + p)
        if wire.problems:
            run.bump("wire_protocol_problems", len(wire.problems))

        # ---- oracles
        for op in ops:
            name = op["op"]
            res = op["_res"]
            ts = op["_ts"]
            nviol = len(run.viol)
            if name.startswith("store"):
                sendmode = {"store-obj": "object-send", "store-path": "path-send", "store-chunked": "chunked-send"}[name]
                same_ts = op.get("file_ts", ts) == ts
                run.check_store(wire, "store", "req", ac_max, op["_instance"], op["_plain"], "scp", sendmode,
                                file_stream=op.get("_file_stream") if same_ts else None,
                                status=(res["status"], res["exc"]), size=op["size"])
                if name == "store-path" and not same_ts:
                    run.bump("path_send_converted")
                if name == "store-obj" and op.get("meta_ts", ts) != ts:
                    run.bump("object_send_converted")
                if res["status"] != 0 and len(run.viol) == nviol:
                    run.violate("store|not-delivered|%s|status" % ts, "send_c_store returned status %r exc %r" % (res["status"], res["exc"]))
                continue
            if name != "n-get":
                run.check_request_param(wire, op)
            run.check_responses(wire, op)
            for spec in op.get("sub", []):
                if name == "get":
                    run.check_store(wire, "get-store", "acc", rq_max, spec["_instance"], spec["_plain"], "req", "object-send",
                                    status=(res["status"], res["exc"]), size=spec["size"])
                else:
                    run.check_store(wire, "move-store", "mvreq", dest_max, spec["_instance"], spec["_plain"], "dest",
                                    "object-send", status=(res["status"], res["exc"]), size=spec["size"])
            final = res["status"]
            if (final != 0 or res["exc"]) and len(run.viol) == nviol:
                run.violate("%s|not-delivered|%s|final-status" % (name, ts), "final status %r, exception %r" % (final, res["exc"]))
        if not established_at_end and not run.viol:
            run.violate("association-lost|%s" % ts, "the association was no longer established after the operations: %r" % (
                [(o["op"], o["_res"]["status"], o["_res"]["exc"]) for o in ops],))
        for e in taps.State.excs[:3]:
            run.notes.append("escaped exception: %s %s %s" % (e["type"], e["where"], e["text"][:120]))
        if taps.State.excs:
            run.bump("escaped_exceptions", len(taps.State.excs))
        left = [f for f in os.listdir(tmp) if not f.startswith("send_")]
        if left:
            run.bump("tempfiles_left_after_case", len(left))
        if slow:
            # keep what was observed at the byte level, drop the verdicts that only say "no answer in time"
            run.viol = [v for v in run.viol if "|not-delivered|" not in v["key"] and not v["key"].startswith("association-lost")]
        sample.update(notes=run.notes[:6], wall=round(time.time() - t0, 2), counters=dict(run.cnt))
        return {"key": sha(sorted(run.sigs)), "nontrivial": run.cnt.get("decoded_compared", 0) > 0, "sample": sample,
                "violations": run.viol, "counters": dict(run.cnt), "sigs": sorted(run.sigs),
                "max_fragments": run.max_fragments,
                "inconclusive": run.inconclusive}
    finally:
        _config.STORE_RECV_CHUNKED_DATASET, _config.STORE_SEND_CHUNKED_DATASET = old_flags
        tempfile.tempdir = old_tmpdir
        for ae in aes:
            try:
                harness.stop_ae(ae, timeout=2.0)
            except Exception:
                pass
        shutil.rmtree(tmp, ignore_errors=True)


def extra_evidence(tier, results):
    sigs = set()
    for r in results.values():
        sigs.update(r.get("sigs") or [])
    ops = {}
    for s in sigs:
        ops[s.split("|")[0]] = ops.get(s.split("|")[0], 0) + 1
    return {"distinct_nontrivial": len(sigs), "distinct_signatures_per_operation": ops,
            "max_fragments_of_one_data_set": max([r.get("max_fragments") or 0 for r in results.values()] or [0])}
