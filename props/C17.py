"""C17 — DIMSE primitives survive conversion to command sets and back.

For a primitive `p` built through the REAL setters of pynetdicom.dimse_primitives the monitor runs the
REAL chain the DIMSE provider runs (dimse.py send_msg / receive_primitive):

    cls = _RQ_TO_MESSAGE / _RSP_TO_MESSAGE[type(p)]   (chosen by `p.MessageIDBeingRespondedTo is None`)
    m = cls(); m.primitive_to_message(p); pdatas = list(m.encode_msg(context_id, max_pdu))
    r = DIMSEMessage(); r.decode_msg(pdata) for each P-DATA ; q = r.message_to_primitive()

and checks, against the independent vlib.dimse_ref (PS3.7 tables, struct + pydicom only):

  M1 message class chosen / decoded == the intended one of the 23 types; type(q) is type(p); direction kept
  M2 every parameter of that message type (PS3.7 9.3/10.3 + Annex C status fields) equal on p and q
     (multi-valued AttributeIdentifierList / OffendingElement as lists of 32-bit tags), p not mutated by the
     conversion, and p reports exactly the in-range values that were set (setter read-back)
  M3 data-set bytes equal
  M4 the PDVs produced reassemble (reference demultiplexer) into exactly one well-formed message whose
     command set is structurally sound (group 0000, ascending, CommandGroupLength == bytes following),
     decodes with pydicom alone to exactly the parameters set + CommandField/CommandDataSetType, and
     CommandField == the PS3.7 value of the type
  M5 CommandDataSetType == 0x0101  <=>  no data-set fragment on the wire  <=>  no data set given
  M6 decode_msg reports completion exactly on the last P-DATA

An empty-but-present data set (BytesIO(b"")) is generated as an extra input per subset; discrepancies it
causes in M5/M6 are keyed "empty-dataset|..." (C16 topic, reported separately).
"""
from __future__ import annotations

import json
from io import BytesIO

from vlib import dimse_ref as R
from vlib.common import rng_for, sha

PID = "C17"
LEVEL = "exploration"
RULE = ("all 23 DIMSE message types x EVERY subset of the optional parameters of the type (all spaces <= 2^9, "
        "enumerated exhaustively) x value profiles (all-minimum, all-maximum, odd-length/mid, seeded random with "
        "boundary bias: ids 0/65535, priority 0..2, UIDs 1..64 chars, AE titles 1..16, AT lists 1..40 tags, data "
        "sets 1..20000 bytes, plus one empty-but-present data set per subset) x fragment sizes (max PDU 0/7../65536); "
        "plus sweeps of all 65536 Status values and every 8th MessageID / MessageIDBeingRespondedTo value (thorough: all "
        "65536 values of every US parameter, Status on all 11 response types); distinct = SHA-1 of (type, command-set bytes, data-set bytes); non-trivial = the command set "
        "carries at least one parameter besides the message id")
ASSUMPTIONS = [
    "vlib/dimse_ref.py is a faithful transcription of PS3.7 9.3/10.3/Annex C/Annex E (self-tested against the repo's "
    "captured command sets and pydicom's dictionary by tools/selftest_dimse_ref.py)",
    "in-range means the PS3.5 value range of the element's VR: US 0..65535, UI <= 64 valid chars, AE 1..16 without "
    "leading/trailing spaces or backslash, LO <= 64 printable ASCII without backslash and without leading/trailing "
    "spaces (not significant per PS3.5), AT 1..n tags; values the setters accept beyond these ranges (e.g. Status -1, "
    "sub-operation counters > 65535, ErrorComment > 64 chars) are outside the quantifier and not generated",
    "an empty AT list and an empty string are treated as 'parameter absent' on both sides of the comparison",
    "values refused by the real setters are skipped and counted (rejected_by_setters)",
    "the message class is chosen as DIMSEServiceProvider.send_msg chooses it; a C-CANCEL always carries "
    "MessageIDBeingRespondedTo and responses always carry MessageIDBeingRespondedTo (otherwise they are requests)",
]
WORKERS = {"quick": 16, "thorough": 16}
REQUIRE = dict({"checked_" + t: 20 for t in R.MESSAGE_TYPES},
               **{"subsets_enumerated": 1925, "status_values_swept": 65536, "with_dataset": 2000,
                  "multi_valued_at": 500, "multi_fragment_command": 200, "max_len_uid": 200, "max_len_ae": 50,
                  "roundtrips_completed": 20000, "dataset_stream_not_at_start": 1000, "file_backed_store_requests": 25, "file_backed_exact_multiple_of_max_length": 2,
                  "forwarded_hops": 20000})
EXHAUSTIVE = {"quick": False, "thorough": False}

US_FIELDS = [k for k, (_, vr, _) in R.ELEMENTS.items() if vr == "US"
             and k not in ("CommandField", "CommandDataSetType", "Priority")]
RQ_TYPES = [t for t, m in R.MESSAGE_TYPES.items() if m.direction == "RQ" and t != "C-CANCEL-RQ"]
RSP_TYPES = [t for t, m in R.MESSAGE_TYPES.items() if m.direction == "RSP"]


# ----------------------------------------------------------------------------- parameter spaces

def optional_members(t):
    """Members of the subset enumeration for type t: every field except the one that fixes the direction
    (MessageIDBeingRespondedTo of responses / C-CANCEL) and Priority (always has a value), + the data set."""
    mt = R.MESSAGE_TYPES[t]
    out = []
    for kw, _usage in mt.fields:
        if kw == "Priority":
            continue
        if kw == "MessageIDBeingRespondedTo":
            continue
        out.append(kw)
    if mt.dataset:
        out.append("@dataset")
    return out


def n_subsets(t):
    return 1 << len(optional_members(t))


BOUNDARY_US = [0, 1, 2, 255, 256, 0x7FFF, 0x8000, 0xFF00, 0xFFFE, 0xFFFF]
STATUS_SAMPLES = [0x0000, 0xFF00, 0xFF01, 0xFE00, 0xA700, 0xA7FF, 0xA900, 0xC000, 0xCFFF, 0xB000, 0xB007, 0x0001,
                  0x0105, 0x0107, 0x0110, 0x0112, 0x0116, 0x0117, 0x0122, 0x0124, 0x0210, 0x0211, 0x0212, 0x0213]
AE_CHARS = "ABCDEFGHIJKLMNOPQRSTUVWXYZabcdefghijklmnopqrstuvwxyz0123456789_-.,:;()/#+*!?$%&'<=>@[]^`{|}~\""
LO_CHARS = AE_CHARS


def gen_us(rng, prof, kw):
    if prof == 0:
        return 0
    if prof == 1:
        return 0xFFFF
    if prof == 2:
        return 0x0100
    if kw == "Status" and rng.random() < 0.5:
        return rng.choice(STATUS_SAMPLES)
    return rng.choice(BOUNDARY_US) if rng.random() < 0.4 else rng.randrange(0x10000)


def gen_uid(rng, prof):
    if prof == 0:
        return "1"
    n = 64 if prof == 1 else 63 if prof == 2 else rng.choice([1, 2, 3, 7, 8, 20, 21, 40, 62, 63, 64, rng.randint(1, 64)])
    comps = ["1", "2"] if n >= 3 else ["1"]
    s = ".".join(comps)
    while len(s) < n:
        room = n - len(s) - 1
        if room <= 0:
            # cannot add ".x": lengthen the last component instead
            s += str(rng.randint(0, 9))
            continue
        ln = min(room, rng.choice([1, 1, 2, 3, 5, 9, 12]))
        if room - ln == 1:      # never leave a dangling single position for "."
            ln = room
        c = str(rng.randint(1, 9)) + "".join(str(rng.randint(0, 9)) for _ in range(ln - 1)) if rng.random() < 0.9 or ln > 1 else "0"
        s += "." + c
    return s[:n]


def gen_text(rng, prof, maxlen, chars, allow_empty=False):
    if prof == 0:
        return "A"
    n = maxlen if prof == 1 else maxlen - 1 if prof == 2 else rng.choice([1, 2, 3, maxlen - 1, maxlen, rng.randint(1, maxlen)])
    if allow_empty and prof >= 3 and rng.random() < 0.03:
        return ""
    s = "".join(rng.choice(chars + "  ") for _ in range(n))
    # leading / trailing spaces are not significant (PS3.5 6.2): keep them out of the quantifier
    s = list(s)
    if s[0] == " ":
        s[0] = "X"
    if s[-1] == " ":
        s[-1] = "Z"
    return "".join(s)


def gen_tags(rng, prof):
    if prof == 0:
        return [0x00000000]
    if prof == 1:
        return [0xFFFFFFFF, 0x00000000, 0x7FE00010, 0xFFFEE000] + [rng.randrange(1 << 32) for _ in range(36)]
    if prof == 2:
        return [0x00100010, 0x00100020]
    r = rng.random()
    if r < 0.25:
        return rng.choice([0x00100010, 0xFFFFFFFF, 0x00000001, rng.randrange(1 << 32)])    # scalar form
    if r < 0.28:
        return []                                                                            # == absent
    n = rng.choice([1, 1, 2, 2, 3, 5, 9])
    return [rng.choice([0, 0xFFFFFFFF, 0x00080018, 0x0000FFFF, 0xFFFF0000]) if rng.random() < 0.3 else rng.randrange(1 << 32)
            for _ in range(n)]


def gen_dataset(rng, prof):
    """hex string of the data-set bytes (opaque at this layer)."""
    if prof == 0:
        n = 1
    elif prof == 1:
        n = 20000
    elif prof == 2:
        n = 255
    else:
        n = rng.choice([1, 2, 3, 10, 11, 17, 18, 19, 100, 256, 1000, rng.randint(1, 400), rng.randint(1, 3000)])
    return bytes(rng.getrandbits(8) for _ in range(n)).hex() if n < 5000 else (bytes(range(256)) * (n // 256 + 1))[:n].hex()


def gen_value(rng, prof, kw):
    vr = R.ELEMENTS[kw][1]
    if vr == "US":
        return gen_us(rng, prof, kw)
    if vr == "UI":
        return gen_uid(rng, prof)
    if vr == "AE":
        return gen_text(rng, prof, 16, AE_CHARS)
    if vr == "LO":
        return gen_text(rng, prof, 64, LO_CHARS, allow_empty=True)
    if vr == "AT":
        return gen_tags(rng, prof)
    raise ValueError(kw)


def make_spec(t, mask, prof, rng):
    """One input: type, parameter values for the subset `mask`, data set, fragment size, context id."""
    mt = R.MESSAGE_TYPES[t]
    members = optional_members(t)
    vprof = prof if isinstance(prof, int) else 3
    params = {}
    ds = None
    for kw, _ in mt.fields:
        if kw == "Priority":
            params[kw] = (0, 2, 1)[vprof] if vprof < 3 else rng.randrange(3)
        elif kw == "MessageIDBeingRespondedTo":
            params[kw] = gen_us(rng, vprof, kw)
    for i, kw in enumerate(members):
        if not (mask >> i) & 1:
            continue
        if kw == "@dataset":
            ds = "" if prof == "E" else gen_dataset(rng, vprof)
        else:
            params[kw] = gen_value(rng, vprof, kw)
    dlen = len(ds) // 2 if ds else 0
    if vprof == 0:
        mx, cx = 0, 1
    elif vprof == 1:
        mx, cx = 16382, 255
    elif vprof == 2:
        mx, cx = 24, 3
    else:
        mx = rng.choice([0, 16382, 65536, 128, 30, 16] + ([8, 7] if dlen < 300 else []))
        cx = rng.randrange(1, 256, 2)
    spec = {"t": t, "p": params, "ds": ds, "mx": mx, "cx": cx}
    if ds and t == "C-STORE-RQ" and (vprof == 2 or (vprof == 3 and rng.random() < 0.3)):
        # file-backed data set (what send_c_store(path) builds with _config.STORE_SEND_CHUNKED_DATASET): fragment sizes chosen so that the
        # data-set length is an exact multiple of the maximum length, of the fragment payload, or neither
        spec["backing"] = "file"
        k = rng.choice([1, 2, 3, 4])
        how = rng.choice(["pdu-multiple", "pdu-multiple", "payload-multiple", "as-is"])
        if how == "pdu-multiple" and dlen % k == 0 and dlen // k >= 8:
            spec["mx"] = dlen // k
        elif how == "payload-multiple" and dlen % k == 0 and dlen // k >= 2:
            spec["mx"] = dlen // k + 6
    if ds:
        # where the data-set stream's position is when the primitive is handed over: a fresh BytesIO(bytes), one that
        # was filled with write() (position at the end, as decode_msg leaves it), or one that was partly read
        spec["dspos"] = ("start", "end", "mid")[vprof] if vprof < 3 else rng.choice(["start", "start", "end", "mid"])
    return spec


# ----------------------------------------------------------------------------- cases

def gen_cases(tier, seed):
    nprof = 16 if tier == "quick" else 600
    per_case = 1600 if tier == "quick" else 20000
    cases = []
    for t in R.MESSAGE_TYPES:
        n = n_subsets(t)
        step = max(1, per_case // (nprof + 1))
        for lo in range(0, n, step):
            cases.append({"kind": "enum", "type": t, "lo": lo, "hi": min(n, lo + step), "profiles": nprof, "seed": seed})
    sweeps = ["Status", "MessageID", "MessageIDBeingRespondedTo"]
    if tier == "thorough":
        sweeps += [k for k in US_FIELDS if k not in sweeps]
    for f in sweeps:
        # quick: every Status value, every 8th id value (residue chosen by the seed; 0 and 65535 are always
        # covered by the all-minimum / all-maximum profiles); thorough: every value of every US parameter
        step = 8 if (tier == "quick" and f != "Status") else 1
        width = 2048 * step
        for lo in range(0, 0x10000, width):
            cases.append({"kind": "sweep", "field": f, "lo": lo + (seed % step), "hi": lo + width, "step": step,
                          "seed": seed, "all_types": tier == "thorough" and f == "Status"})
    # interleave so that every worker shard gets a similar mix
    rng = rng_for(seed, PID, "order")
    rng.shuffle(cases)
    return cases


def types_with(field):
    return [t for t, m in R.MESSAGE_TYPES.items() if field in [k for k, _ in m.fields]]


def specs_of_case(case):
    kind = case["kind"]
    if kind == "spec":
        yield case["spec"]
    elif kind == "enum":
        t = case["type"]
        has_ds = R.MESSAGE_TYPES[t].dataset is not None
        nmem = len(optional_members(t))
        for mask in range(case["lo"], case["hi"]):
            profs = list(range(case["profiles"]))
            if has_ds and (mask >> (nmem - 1)) & 1:
                profs.append("E")
            for prof in profs:
                yield make_spec(t, mask, prof, rng_for(case["seed"], PID, t, mask, prof))
    elif kind == "sweep":
        f = case["field"]
        types = types_with(f)
        for v in range(case["lo"], case["hi"], case.get("step", 1)):
            tl = types if case.get("all_types") else [types[(v // case.get("step", 1) + case["seed"]) % len(types)]]
            for t in tl:
                p = {f: v}
                if R.MESSAGE_TYPES[t].direction == "RSP" or t == "C-CANCEL-RQ":
                    p.setdefault("MessageIDBeingRespondedTo", (v * 7 + 1) & 0xFFFF)
                if "Priority" in [k for k, _ in R.MESSAGE_TYPES[t].fields]:
                    p["Priority"] = v % 3
                yield {"t": t, "p": p, "ds": None, "mx": 0, "cx": 1 + 2 * (v % 128)}


# ----------------------------------------------------------------------------- real-code adapters

_PN = {}


def setup_worker():
    import logging
    import warnings
    logging.disable(logging.CRITICAL)
    warnings.simplefilter("ignore")
    from pynetdicom import dimse_primitives as P, dimse_messages as M, dimse as D
    _PN.update(P=P, M=M, D=D)


def _prim_class(t):
    return getattr(_PN["P"], R.MESSAGE_TYPES[t].service.replace("-", "_"))


_STUB = {}


def _select_message_class(prim):
    """The message class the REAL DIMSEServiceProvider.send_msg builds for this primitive (observed through
    EVT_DIMSE_SENT on an unstarted, socket-less Association whose DUL queue is drained afterwards) - the rule is
    executed, not replicated."""
    if "assoc" not in _STUB:
        from pynetdicom import AE, evt
        from pynetdicom.association import Association
        ae = AE()
        assoc = Association(ae, "requestor")
        assoc.acceptor.maximum_length = 0
        seen = []
        for h in list(assoc.get_handlers(evt.EVT_DIMSE_SENT)):   # the logging handlers may raise on unusual values
            assoc.unbind(evt.EVT_DIMSE_SENT, h[0])
        assoc.bind(evt.EVT_DIMSE_SENT, lambda event: seen.append(type(event.message)))
        _STUB.update(assoc=assoc, seen=seen)
    assoc, seen = _STUB["assoc"], _STUB["seen"]
    del seen[:]
    try:
        assoc.dimse.send_msg(prim, 1)
    finally:
        q = assoc.dul.to_provider_queue
        while not q.empty():
            q.get(False)
    if not seen:
        raise RuntimeError("send_msg did not announce a message (EVT_DIMSE_SENT not triggered)")
    return seen[-1]


def norm(kw, v):
    """Plain, comparable form of a parameter value ('' / [] == absent)."""
    if v is None:
        return None
    vr = R.ELEMENTS[kw][1]
    if vr == "AT":
        if isinstance(v, int):
            return [int(v)]
        if isinstance(v, (str, bytes)):
            return None if not v else "?" + repr(v)
        try:
            vals = [int(x) for x in v]
        except Exception:
            return "?" + repr(v)
        return vals or None
    if vr == "US":
        if isinstance(v, bool) or not isinstance(v, int):
            return "?" + repr(v)
        return int(v)
    if not isinstance(v, str):
        return "?" + repr(v)
    s = str(v)
    if vr == "AE":
        s = s.strip()
    return s or None


def snapshot(prim, t):
    mt = R.MESSAGE_TYPES[t]
    out = {}
    for kw, _ in mt.fields:
        out[kw] = norm(kw, getattr(prim, kw, None))
    if mt.dataset:
        d = getattr(prim, mt.dataset, None)
        out["@dataset"] = None if d is None else d.getvalue()
    return out


def _kind(before, after):
    if before is not None and after is None:
        return "lost"
    if before is None and after is not None:
        return "spurious"
    if isinstance(before, list) and isinstance(after, list) and len(before) != len(after):
        return "multiplicity"
    return "value"


def _check_file_backed(p, spec, ds_bytes, counters, add, bump):
    """C-STORE-RQ whose data set lives in a file (primitive._dataset_path = (path, offset), DataSet None): the fragments on the wire must
    carry exactly the file's data-set bytes and the command set must announce them."""
    import os
    import tempfile
    from pathlib import Path
    M = _PN["M"]
    t = spec["t"]
    viol = []
    try:
        for kw, v in spec["p"].items():
            setattr(p, kw, v)
    except (ValueError, TypeError):
        bump("rejected_by_setters")
        return viol
    offset = 132 + (len(ds_bytes) % 7) * 2
    fd, path = tempfile.mkstemp(prefix="c17_", suffix=".dcm")
    try:
        with os.fdopen(fd, "wb") as f:
            f.write(b"\0" * offset + ds_bytes)
        p._dataset_path = (Path(path), offset)
        m = M.C_STORE_RQ()
        m.primitive_to_message(p)
        pdvs = []
        for pd in m.encode_msg(spec["cx"], spec["mx"]):
            for cx, data in pd.presentation_data_value_list:
                pdvs.append((cx, data[0], bytes(data[1:])))
    except Exception as exc:
        add("file-backed|raises|%s" % type(exc).__name__, "%r for mx=%r, %d data-set bytes" % (exc, spec["mx"], len(ds_bytes)))
        return viol
    finally:
        try:
            os.unlink(path)
        except OSError:
            pass
    bump("file_backed_store_requests")
    msgs = R.reassemble(pdvs)
    if len(msgs) != 1 or msgs.problems:
        add("file-backed|wire|%s" % ((msgs.kinds() or ["message-count"])[0]), "%d messages, problems %r (mx=%r, %d data-set bytes)" % (
            len(msgs), msgs.problems[:3], spec["mx"], len(ds_bytes)))
        return viol
    w = msgs[0]
    got = R.parse_command_set(w["command_set_bytes"], [])
    if got.get("CommandDataSetType") == R.NO_DATA_SET:
        add("file-backed|cdst|dataset-without-flag", "CommandDataSetType 0x0101 for a file-backed data set of %d bytes" % len(ds_bytes))
    if w["data_set_bytes"] != ds_bytes:
        a = w["data_set_bytes"] or b""
        add("file-backed|dataset-bytes", "file holds %d data-set bytes, %d arrive on the wire (maximum length %r: %s)" % (
            len(ds_bytes), len(a), spec["mx"],
            "exact multiple of the maximum length" if spec["mx"] and len(ds_bytes) % spec["mx"] == 0 else
            "exact multiple of the fragment payload" if spec["mx"] and len(ds_bytes) % (spec["mx"] - 6) == 0 else "no multiple"))
    if spec["mx"] and len(ds_bytes) % spec["mx"] == 0:
        bump("file_backed_exact_multiple_of_max_length")
    return viol


# ----------------------------------------------------------------------------- the monitor

def check_one(spec, counters):
    """Run the real chain on one spec.  Returns (violations, info)."""
    if not _PN:
        setup_worker()
    M = _PN["M"]
    t = spec["t"]
    mt = R.MESSAGE_TYPES[t]
    ds_bytes = None if spec["ds"] is None else bytes.fromhex(spec["ds"])
    empty_ds = ds_bytes is not None and len(ds_bytes) == 0
    viol = []
    info = {}

    def add(key, detail, empty_related=False):
        if empty_ds and empty_related:
            key = "empty-dataset|" + key
        viol.append({"key": key, "detail": detail})

    def bump(name, n=1):
        counters[name] = counters.get(name, 0) + n

    # ---- build through the real setters
    p = _prim_class(t)()
    if spec.get("backing") == "file" and ds_bytes:
        _check_file_backed(p, spec, ds_bytes, counters, add, bump)      # reports through add()
        info["nontrivial"] = True
        info["hash"] = sha(("file|%d|%r" % (len(ds_bytes), spec["mx"])).encode() + ds_bytes[:64])[:10]
        return viol, info
    try:
        for kw, v in spec["p"].items():
            setattr(p, kw, v)
        if ds_bytes is not None:
            bio = BytesIO(ds_bytes)
            pos = spec.get("dspos", "start")
            if pos == "end":
                bio = BytesIO()
                bio.write(ds_bytes)
            elif pos == "mid":
                bio.read(max(1, len(ds_bytes) // 2))
            if pos != "start":
                bump("dataset_stream_not_at_start")
            setattr(p, mt.dataset, bio)
    except (ValueError, TypeError) as exc:
        bump("rejected_by_setters")
        info["rejected"] = repr(exc)[:200]
        return viol, info
    before = snapshot(p, t)
    intended = {kw: norm(kw, v) for kw, v in spec["p"].items()}
    for kw, v in intended.items():
        if before.get(kw) != v:
            # the setter raised nothing but the getter does not return the in-range value that was set
            bump("setter_changed_value")
            add("setter-readback|%s|%s|%s" % (t, kw, _kind(v, before.get(kw))),
                "set %s=%r through the setter, the primitive reports %r" % (kw, v, before.get(kw)))
    if mt.dataset and before["@dataset"] != ds_bytes:
        add("setter-readback|%s|@dataset" % t, "data set parameter reads back differently")
    bump("checked_" + t)
    if ds_bytes:
        bump("with_dataset")
    if empty_ds:
        bump("empty_dataset_inputs")
    if any(isinstance(v, list) and len(v) > 1 for v in before.values()):
        bump("multi_valued_at")
    if any(R.ELEMENTS[k][1] == "UI" and isinstance(v, str) and len(v) == 64 for k, v in before.items() if k[0] != "@"):
        bump("max_len_uid")
    if any(R.ELEMENTS[k][1] == "AE" and isinstance(v, str) and len(v) == 16 for k, v in before.items() if k[0] != "@"):
        bump("max_len_ae")

    # ---- M1: message class as the provider chooses it
    try:
        cls = _select_message_class(p)
    except Exception as exc:
        add("raises|select-message-class|%s|%s" % (t, type(exc).__name__), "%r for %s" % (exc, json.dumps(spec)[:600]))
        return viol, info
    if cls.__name__.replace("_", "-") != t:
        add("direction|message-class-chosen|%s" % t, "send_msg rule chose %s for %s" % (cls.__name__, json.dumps(spec)[:600]))
        return viol, info

    # ---- primitive -> message -> P-DATA
    try:
        m = cls()
        m.primitive_to_message(p)
    except Exception as exc:
        add("raises|primitive_to_message|%s|%s" % (t, type(exc).__name__), "%r for %s" % (exc, json.dumps(spec)[:600]))
        return viol, info
    after_conv = snapshot(p, t)
    for kw in before:
        if after_conv[kw] != before[kw]:
            add("primitive-mutated|%s|%s" % (t, kw), "primitive_to_message changed %s: %r -> %r" % (kw, before[kw], after_conv[kw]))
    try:
        pdatas = list(m.encode_msg(spec["cx"], spec["mx"]))
    except Exception as exc:
        add("raises|encode_msg|%s|%s" % (t, type(exc).__name__), "%r for %s" % (exc, json.dumps(spec)[:600]))
        return viol, info
    pdvs = []
    for pd in pdatas:
        for cx, data in pd.presentation_data_value_list:
            pdvs.append((cx, data[0], bytes(data[1:])))

    # ---- M4: the wire, seen by the reference
    msgs = R.reassemble(pdvs)
    wire_kinds = [k for k in msgs.kinds()]
    dataset_due_only = bool(wire_kinds) and all(k == "missing-last" for k in wire_kinds) and len(msgs) == 1 \
        and msgs[0]["expects_data"] and msgs[0]["data_fragments"] == 0
    if len(msgs) != 1:
        add("wire|message-count|%s" % t, "%d messages reassembled from %d PDVs; problems %r" % (len(msgs), len(pdvs), msgs.problems[:3]))
        return viol, info
    wm = msgs[0]
    if msgs.problems and not dataset_due_only:
        add("wire|%s|%s" % (wire_kinds[0], t), "%r ; spec %s" % (msgs.problems[:3], json.dumps(spec)[:500]))
    if any(cx != spec["cx"] for cx, _, _ in pdvs):
        add("wire|context-id|%s" % t, "PDV context ids %r, asked %d" % (sorted({c for c, _, _ in pdvs}), spec["cx"]))
    if wm["command_fragments"] > 1:
        bump("multi_fragment_command")
    cmd_bytes = wm["command_set_bytes"]
    info["command_set"] = cmd_bytes.hex()
    probs = []
    got = R.parse_command_set(cmd_bytes, probs)
    for pr in probs:
        add("command-set|structure|%s|%s" % (pr.split(":")[0], t), "%s in %s" % (pr, cmd_bytes.hex()[:400]))
    if got.get("CommandField") != mt.command_field:
        add("command-field|%s" % t, "CommandField %r, PS3.7 says 0x%04X" % (got.get("CommandField"), mt.command_field))
    want = {k: v for k, v in before.items() if k[0] != "@" and v is not None}
    for kw in sorted(set(want) | (set(got) - set(R.ALWAYS_PRESENT))):
        a = norm(kw, got.get(kw)) if kw in R.ELEMENTS else got.get(kw)
        b = want.get(kw)
        if a != b:
            add("command-set|element|%s|%s|%s" % (t, kw, _kind(b, a)),
                "pydicom decode of the command set gives %s=%r, primitive has %r ; %s" % (kw, a, b, cmd_bytes.hex()[:400]))
    # reference encoder (observation only: AE padding etc. may legally differ)
    try:
        ref = R.build_command_set(t, want, got.get("CommandDataSetType") != R.NO_DATA_SET)
        bump("ref_bytes_equal" if ref == cmd_bytes else "ref_bytes_differ")
    except Exception:
        bump("ref_encode_failed")

    # ---- M5: CommandDataSetType <=> data set on the wire <=> data set given
    cdst = got.get("CommandDataSetType")
    flag_no_ds = cdst == R.NO_DATA_SET
    wire_has_ds = wm["data_fragments"] > 0
    if cdst is None:
        add("cdst|missing|%s" % t, "no CommandDataSetType in %s" % cmd_bytes.hex()[:300])
    elif flag_no_ds and wire_has_ds:
        add("cdst|dataset-without-flag|%s" % t, "CommandDataSetType 0x0101 but %d data fragments follow" % wm["data_fragments"], True)
    elif not flag_no_ds and not wire_has_ds:
        add("cdst|flag-without-dataset|%s" % t,
            "CommandDataSetType 0x%04X announces a data set but no data-set fragment is produced (data set given: %s) ; spec %s"
            % (cdst, "none" if ds_bytes is None else "%d bytes" % len(ds_bytes), json.dumps(spec)[:400]), True)
    if bool(ds_bytes) != wire_has_ds:
        add("wire|dataset-presence|%s" % t, "data set of %r bytes given, %d data fragments on the wire"
            % (None if ds_bytes is None else len(ds_bytes), wm["data_fragments"]))
    elif ds_bytes and wm["data_set_bytes"] != ds_bytes:
        add("wire|dataset-bytes|%s" % t, "data-set fragments concatenate to %d bytes != the %d given" % (len(wm["data_set_bytes"]), len(ds_bytes)))

    # ---- P-DATA -> message -> primitive  (as receive_primitive does)
    r = M.DIMSEMessage()
    done_at = None
    try:
        for i, pd in enumerate(pdatas):
            if r.decode_msg(pd):
                done_at = i
                break
    except Exception as exc:
        add("raises|decode_msg|%s|%s" % (t, type(exc).__name__), "%r for %s" % (exc, json.dumps(spec)[:600]))
        return viol, info
    if done_at is None:
        add("decode-incomplete|%s" % t,
            "decode_msg never reported a complete message after all %d P-DATA of its own encoding ; spec %s" % (len(pdatas), json.dumps(spec)[:400]), True)
        return viol, info
    if done_at != len(pdatas) - 1:
        add("decode-early|%s" % t, "decode_msg reported completion at P-DATA %d of %d" % (done_at + 1, len(pdatas)))
        return viol, info
    if r.__class__.__name__.replace("_", "-") != t:
        add("class|message-type|%s" % t, "decoded message is %s" % r.__class__.__name__)
    try:
        q = r.message_to_primitive()
    except Exception as exc:
        add("raises|message_to_primitive|%s|%s" % (t, type(exc).__name__), "%r for %s" % (exc, json.dumps(spec)[:600]))
        return viol, info
    bump("roundtrips_completed")
    if type(q) is not type(p):
        add("class|primitive-type|%s" % t, "got %s, sent %s" % (type(q).__name__, type(p).__name__))
        return viol, info
    # direction: the provider's own rule must classify q as it classified p
    try:
        qcls = _select_message_class(q)
        if qcls is not cls:
            add("direction|%s" % t, "round-tripped primitive would be sent as %s" % qcls.__name__)
    except Exception as exc:
        add("direction|%s" % t, "cannot classify round-tripped primitive: %r" % (exc,))
    if mt.direction == "RQ" and t != "C-CANCEL-RQ" and q.MessageIDBeingRespondedTo is not None:
        add("direction|%s" % t, "request came back with MessageIDBeingRespondedTo=%r" % q.MessageIDBeingRespondedTo)
    # ---- M2 / M3
    after = snapshot(q, t)
    for kw in before:
        if kw == "@dataset":
            a = after[kw] or b""
            b = before[kw] or b""
            if a != b:
                add("dataset-bytes|%s" % t, "data set of %d bytes came back as %d bytes (first difference at %d)"
                    % (len(b), len(a), next((i for i in range(min(len(a), len(b))) if a[i] != b[i]), min(len(a), len(b)))))
            if before[kw] is None and after[kw] is not None:
                bump("none_dataset_became_empty_bytesio")
        elif after[kw] != before[kw]:
            add("param-differs|%s|%s|%s" % (t, kw, _kind(before[kw], after[kw])),
                "%s: sent %r, received %r ; spec %s" % (kw, before[kw], after[kw], json.dumps(spec)[:400]))
    # ---- second hop: the received primitive handed on as it is (a forwarding SCP / a handler re-sending what it got)
    try:
        m2 = cls()
        m2.primitive_to_message(q)
        pdvs2 = []
        for pd in m2.encode_msg(spec["cx"], spec["mx"]):
            for cx, data in pd.presentation_data_value_list:
                pdvs2.append((cx, data[0], bytes(data[1:])))
        msgs2 = R.reassemble(pdvs2)
        bump("forwarded_hops")
        if len(msgs2) != 1:
            add("forwarded|message-count|%s" % t, "%d messages reassembled from the re-sent primitive; problems %r" % (len(msgs2), msgs2.problems[:3]), True)
        else:
            w2 = msgs2[0]
            got2 = R.parse_command_set(w2["command_set_bytes"], [])
            has2 = w2["data_fragments"] > 0
            if (got2.get("CommandDataSetType") == R.NO_DATA_SET) == has2:
                add("forwarded|cdst-vs-fragments|%s" % t, "re-sent primitive: CommandDataSetType %r with %d data fragments (data set %s bytes)"
                    % (got2.get("CommandDataSetType"), w2["data_fragments"], None if ds_bytes is None else len(ds_bytes)), True)
            if bool(ds_bytes) != has2 or (ds_bytes and w2["data_set_bytes"] != ds_bytes):
                add("forwarded|dataset-bytes|%s" % t, "re-sent primitive carries %s data-set bytes on the wire, the original had %s"
                    % (len(w2["data_set_bytes"] or b"") if has2 else None, None if ds_bytes is None else len(ds_bytes)), True)
    except Exception as exc:
        add("forwarded|raises|%s|%s" % (t, type(exc).__name__), "%r for %s" % (exc, json.dumps(spec)[:600]), True)
    info["nontrivial"] = len(want) > 1 or bool(ds_bytes)
    info["hash"] = sha(t.encode() + b"|" + cmd_bytes + b"|" + (ds_bytes or b""))[:10]
    return viol, info


def run_case(case):
    counters = {}
    viols = {}
    hashes = set()
    sample = None
    n = 0
    masks = set()
    for spec in specs_of_case(case):
        n += 1
        vs, info = check_one(spec, counters)
        if info.get("nontrivial") and "hash" in info:
            hashes.add(info["hash"])
        if sample is None and info.get("nontrivial") and len(spec["p"]) >= 3:
            sample = {"spec": _short(spec), "command_set": info.get("command_set", "")[:400]}
        for v in vs:
            if v["key"] not in viols:
                v["detail"] = v["detail"] + " || spec=" + json.dumps(_short(spec))[:900]
                viols[v["key"]] = v
    counters["evaluations"] = n
    if case["kind"] == "enum":
        counters["subsets_enumerated"] = case["hi"] - case["lo"]
    if case["kind"] == "sweep":
        counters[{"Status": "status_values_swept", "MessageID": "message_id_values_swept",
                  "MessageIDBeingRespondedTo": "responded_to_values_swept"}.get(case["field"], "us_values_swept_" + case["field"])] = \
            len(range(case["lo"], case["hi"], case.get("step", 1)))
    return {"key": sha(sorted(hashes)), "nontrivial": bool(hashes), "sample": sample,
            "violations": list(viols.values()), "counters": counters, "hashes": sorted(hashes), "inconclusive": None}


def _short(spec):
    s = dict(spec)
    if s.get("ds") and len(s["ds"]) > 80:
        s = dict(s, ds=s["ds"][:80] + "...(%d bytes)" % (len(spec["ds"]) // 2))
    return s


def extra_evidence(tier, results):
    allh = set()
    for r in results.values():
        allh.update(r.get("hashes") or [])
    return {"distinct_nontrivial": len(allh),
            "subset_space": {t: n_subsets(t) for t in R.MESSAGE_TYPES},
            "subsets_exhaustive": True,
            "command_fields": {t: "0x%04X" % m.command_field for t, m in R.MESSAGE_TYPES.items()}}
