"""C07 — a peer's release request is always answered with a release response.

The arrival point of the A-RELEASE-RQ is ENUMERATED, not timed: service handlers block on a harness semaphore before
each yield; the scripted peer sends the release request, waits until the provider has read it (FSM in Sta8), then lets
the handler continue.  Acceptor role: C-FIND / C-GET (with real C-STORE sub-operations back to the peer) / C-MOVE (to a
second local AE) handlers with N results, C-ECHO / C-STORE plain handlers, idle, between messages.  Requestor role:
pynetdicom as SCU whose C-FIND/C-GET/C-MOVE response iterator was exhausted or abandoned at the final status, then the
(scripted) acceptor requests the release.
Oracle: the peer sees A-RELEASE-RP (or an A-ABORT if pynetdicom itself aborts) and the association ends released with
exactly one EVT_RELEASED.
"""
import threading
import time

from vlib import cmdset, harness, peer as vpeer, ps38, taps
from vlib.common import rng_for, sha

PID = "C07"
LEVEL = "exploration"
RULE = ("(service, N results, arrival point of the A-RELEASE-RQ relative to the handler's yields / sub-operations / idle / "
        "iterator state) enumerated via gated handlers; distinct = (role, service, N, arrival point); non-trivial = the release "
        "request was read by the provider at the intended point (FSM in Sta8 observed)")
ASSUMPTIONS = ["bounded progress: ACSE timeout 1 s, watchdog 10 s", "the peer keeps answering sub-operations it is sent"]
WORKERS = {"quick": 12, "thorough": 16}
REQUIRE = {"points_reached": 40, "release_rp_seen": 45, "requestor_points": 8, "pre_first_result_points": 6, "pipelined_points": 5, "in_transition_points": 5}
VER = "1.2.840.10008.1.1"
CT = "1.2.840.10008.5.1.4.1.1.2"
FIND = "1.2.840.10008.5.1.4.1.2.1.1"
GET = "1.2.840.10008.5.1.4.1.2.1.3"
MOVE = "1.2.840.10008.5.1.4.1.2.1.2"
IDENT = b"\x08\x00\x52\x00\x08\x00\x00\x00PATIENT " + b"\x10\x00\x20\x00\x02\x00\x00\x00* "


def setup_worker():
    harness.quiet_logging()
    taps.install()


def gen_cases(tier, seed):
    cases = []
    ns = [0, 1, 2, 4] if tier == "thorough" else [0, 1, 3]
    for svc in ("find", "get", "move"):
        for n in ns:
            for k in range(0, n + 2):          # before yield k (k == n: before the generator ends), n+1: after the final response
                if n == 0 and k == 0 and svc in ("get", "move"):
                    continue                   # with 0 announced sub-operations the SCP never resumes the handler
                cases.append({"role": "acceptor", "svc": svc, "n": n, "point": k})
            # (a release request while a C-STORE sub-operation is outstanding is not enumerated: after its A-RELEASE-RQ the
            #  peer may not send the C-STORE response any more - Sta8 + P-DATA-TF is AA-8 - so pynetdicom's own DIMSE timeout
            #  aborts the sub-operation; the statement exempts aborts by pynetdicom itself)
    # before the first result is drawn: while the handler is still computing ahead of its first yield (for C-GET / C-MOVE ahead of
    # the announced count / the destination), for a plain-function C-FIND handler before it returns its list, and with the
    # A-RELEASE-RQ pipelined in the same TCP write as the request
    for svc in ("find", "get", "move"):
        for n in ([0, 2] if tier == "quick" else [0, 1, 2, 4]):
            cases.append({"role": "acceptor", "svc": svc, "n": n, "point": "pre"})
            cases.append({"role": "acceptor", "svc": svc, "n": n, "point": "pre", "pipelined": True})
    for n in (0, 2):
        cases.append({"role": "acceptor", "svc": "find", "n": n, "point": "pre", "plain": True})
    # the handler's next between-yields check falls INSIDE the provider's handling of the A-RELEASE-RQ: the indication is already queued
    # but the transition to Sta8 has not happened yet (an EVT_FSM_TRANSITION notification handler is still running)
    for svc in ("find", "get", "move"):
        for k in (0, 1):
            cases.append({"role": "acceptor", "svc": svc, "n": 2, "point": k, "in_transition": True})
    for svc in ("echo", "store"):
        cases.append({"role": "acceptor", "svc": svc, "n": 0, "point": "during-handler"})
        cases.append({"role": "acceptor", "svc": svc, "n": 0, "point": "after-response"})
    cases.append({"role": "acceptor", "svc": "none", "n": 0, "point": "idle"})
    cases.append({"role": "acceptor", "svc": "echo", "n": 0, "point": "between-messages"})
    for svc in ("find", "get", "move", "echo"):
        for how in ("exhausted", "stopped-at-final"):
            for n in (0, 2):
                if svc == "echo" and (how != "exhausted" or n):
                    continue
                cases.append({"role": "requestor", "svc": svc, "n": n, "point": how})
    reps = 1 if tier == "quick" else 5
    return [dict(c, rep=r) for c in cases for r in range(reps)]


def _mk_ds(i):
    from pydicom.dataset import Dataset, FileMetaDataset
    from pydicom.uid import ImplicitVRLittleEndian
    ds = Dataset()
    ds.SOPClassUID = CT; ds.SOPInstanceUID = "1.2.3.%d" % (i + 1); ds.PatientName = "P%d" % i; ds.QueryRetrieveLevel = "PATIENT"
    ds.file_meta = FileMetaDataset(); ds.file_meta.TransferSyntaxUID = ImplicitVRLittleEndian
    return ds


def run_acceptor(case, counters):
    from pynetdicom import evt, build_role
    taps.reset()
    viol = []
    gate = threading.Semaphore(0)
    at_gate = threading.Event()
    hist = {"released": 0, "aborted": 0, "entered": 0}
    n = case["n"]
    point = case["point"]
    ae = harness.make_ae(timeouts=(1.0, 2.0, 3.0, 1.0), supported=[VER, dict(abstract_syntax=CT, scu_role=True, scp_role=True), FIND, GET, MOVE],
                         requested=[CT])
    dest_ae = harness.make_ae(title="DEST", timeouts=(1.0, 1.0, 2.0, 1.0), supported=[CT])
    dest_srv, dest_port = harness.start_server(dest_ae, [(evt.EVT_C_STORE, lambda e: 0x0000)])

    in_window = threading.Event()
    progressed = threading.Event()
    win = {"used": False}

    def on_fsm(event):
        if case.get("in_transition") and event.fsm_event == "Evt12" and event.current_state == "Sta6" and not win["used"]:
            win["used"] = True
            in_window.set()
            progressed.wait(1.0)       # until the service handler has been resumed (or was stopped), bounded

    def wait_gate(k):
        if in_window.is_set():
            progressed.set()
        hist["entered"] += 1
        if point == k:
            at_gate.set()
            gate.acquire(timeout=6.0)

    def on_find_plain(event):
        wait_gate("pre")
        return [(0xFF00, _mk_ds(i)) for i in range(n)]

    def on_find(event):
        wait_gate("pre")
        for i in range(n):
            wait_gate(i)
            yield 0xFF00, _mk_ds(i)
        wait_gate(n)

    def on_get(event):
        wait_gate("pre")
        yield n
        for i in range(n):
            wait_gate(i)
            yield 0xFF00, _mk_ds(i)
        wait_gate(n)

    def on_move(event):
        wait_gate("pre")
        yield ("127.0.0.1", dest_port)
        yield n
        for i in range(n):
            wait_gate(i)
            yield 0xFF00, _mk_ds(i)
        wait_gate(n)

    def on_echo(event):
        wait_gate("during-handler")
        return 0x0000

    def on_store(event):
        wait_gate("during-handler")
        return 0x0000
    handlers = [(evt.EVT_C_FIND, on_find_plain if case.get("plain") else on_find), (evt.EVT_C_GET, on_get), (evt.EVT_C_MOVE, on_move), (evt.EVT_C_ECHO, on_echo),
                (evt.EVT_C_STORE, on_store), (evt.EVT_RELEASED, lambda e: hist.__setitem__("released", hist["released"] + 1)),
                (evt.EVT_ABORTED, lambda e: hist.__setitem__("aborted", hist["aborted"] + 1)), (evt.EVT_FSM_TRANSITION, on_fsm)]
    server, port = harness.start_server(ae, handlers)
    p = vpeer.Peer.connect(port)
    obs = {}
    try:
        pcs = [{"id": 1, "abs": VER, "ts": [ps38.IMPLICIT_LE]}, {"id": 3, "abs": CT, "ts": [ps38.IMPLICIT_LE]},
               {"id": 5, "abs": FIND, "ts": [ps38.IMPLICIT_LE]}, {"id": 7, "abs": GET, "ts": [ps38.IMPLICIT_LE]},
               {"id": 9, "abs": MOVE, "ts": [ps38.IMPLICIT_LE]}]
        # the peer offers to act as storage SCP so that C-GET sub-operations can be sent back to it
        rq = ps38.make_rq(pcs=pcs, extra_ui=[{"k": "role", "uid": CT, "scu": 1, "scp": 1}])
        ac = p.associate(rq)
        if not ac or ac.get("type") != "AC":
            return [], {"setup": "no AC"}, "setup failed"
        harness.wait_for(lambda: bool(harness.acceptor_assocs()), 2.0)
        acc = harness.acceptor_assocs()[0]
        svc = case["svc"]
        req = {"find": ("C-FIND-RQ", 5, FIND), "get": ("C-GET-RQ", 7, GET), "move": ("C-MOVE-RQ", 9, MOVE)}.get(svc)
        seen = []          # message kinds received from pynetdicom
        rel_sent = {"t": None}
        withheld = []

        def send_release():
            p.send_pdu({"type": "RELRQ"})
            rel_sent["t"] = time.time()
            ok = harness.wait_for(lambda: acc.dul.state_machine.current_state in ("Sta8", "Sta13", "Sta1"), 3.0)
            if acc.dul.state_machine.current_state == "Sta8":
                counters["points_reached"] = counters.get("points_reached", 0) + 1
            return ok

        if svc == "none":
            send_release()
        elif svc in ("echo", "store"):
            if svc == "echo":
                p.send_dimse(1, cmdset.c_echo_rq(3))
            else:
                cmd = cmdset.make("C-STORE-RQ", AffectedSOPClassUID=CT, MessageID=3, Priority=0, AffectedSOPInstanceUID="1.2.3.9", CommandDataSetType=0)
                p.send_dimse(3, cmd, IDENT)
            if point == "during-handler":
                at_gate.wait(3.0)
                send_release()
                gate.release()
            elif point == "after-response":
                p.recv_dimse(3.0)
                send_release()
            elif point == "between-messages":
                p.recv_dimse(3.0)
                p.send_dimse(1, cmdset.c_echo_rq(4))
                p.recv_dimse(3.0)
                send_release()
        else:
            kind, ctx, sop = req
            kw = dict(AffectedSOPClassUID=sop, MessageID=11, Priority=0, CommandDataSetType=0)
            if svc == "move":
                kw["MoveDestination"] = "DEST"
            if case.get("pipelined"):
                p.send_raw(b"".join(ps38.encode(v) for v in p.dimse_pdus(ctx, cmdset.make(kind, **kw), IDENT)) + ps38.encode({"type": "RELRQ"}))
                rel_sent["t"] = time.time()
                at_gate.wait(6.0)
                if harness.wait_for(lambda: acc.dul.state_machine.current_state in ("Sta8", "Sta13", "Sta1"), 3.0) and \
                        acc.dul.state_machine.current_state == "Sta8" and at_gate.is_set():
                    counters["points_reached"] = counters.get("points_reached", 0) + 1
                    counters["pipelined_points"] = counters.get("pipelined_points", 0) + 1
                gate.release()
            else:
                p.send_dimse(ctx, cmdset.make(kind, **kw), IDENT)
            if case.get("pipelined"):
                pass
            elif point == "pre":
                if not at_gate.wait(6.0):
                    return [], {"setup": "handler never entered", "seen": seen}, "arrival point not reached"
                send_release()
                counters["pre_first_result_points"] = counters.get("pre_first_result_points", 0) + 1
                gate.release()
            elif isinstance(point, int) and point <= n:
                # serve sub-operations / collect responses until the handler is parked at the chosen yield
                deadline = time.time() + 6.0
                while not at_gate.is_set() and time.time() < deadline:
                    m = p.recv_dimse(0.05)
                    if m and m.get("type") == "DIMSE":
                        _serve(p, m, seen)
                if not at_gate.is_set():
                    return [], {"setup": "handler never reached the chosen yield", "seen": seen}, "arrival point not reached"
                if case.get("in_transition"):
                    p.send_pdu({"type": "RELRQ"})
                    rel_sent["t"] = time.time()
                    if in_window.wait(3.0):
                        counters["points_reached"] = counters.get("points_reached", 0) + 1
                        counters["in_transition_points"] = counters.get("in_transition_points", 0) + 1
                    gate.release()
                else:
                    send_release()
                    gate.release()
            elif point == "during-subop":
                # withhold the C-STORE response of the first sub-operation, request the release meanwhile
                deadline = time.time() + 6.0
                while time.time() < deadline:
                    m = p.recv_dimse(0.1)
                    if m and m.get("type") == "DIMSE":
                        if m["cmd"].get("CommandField") == 0x0001 and not withheld:
                            withheld.append(m)
                            break
                        _serve(p, m, seen)
                send_release()
                if withheld:
                    _serve(p, withheld[0], seen)
            else:   # after the final response
                deadline = time.time() + 6.0
                final = False
                while not final and time.time() < deadline:
                    m = p.recv_dimse(0.2)
                    if m and m.get("type") == "DIMSE":
                        _serve(p, m, seen)
                        st = m["cmd"].get("Status")
                        if m["cmd"].get("CommandField") in (0x8020, 0x8010, 0x8021) and st not in (0xFF00, 0xFF01):
                            final = True
                send_release()
        # ---- now the release response must come (possibly after remaining responses / sub-operations)
        got = None
        deadline = time.time() + 8.0
        while time.time() < deadline:
            m = p.recv_dimse(0.3)
            if m is None:
                continue
            if m.get("type") == "DIMSE":
                _serve(p, m, seen)
                continue
            got = m.get("type")
            break
        p.close()
        quiet, _ = taps.wait_quiet(8.0)
        obs = {"answer": got, "messages_seen": seen[-8:], "acceptor_released": acc.is_released, "acceptor_aborted": acc.is_aborted,
               "evt_released": hist["released"], "evt_aborted": hist["aborted"], "fsm": [f["event"] for f in taps.State.fsm if f["assoc"] == id(acc)][-8:]}
        pt = "%s|n=%d|%s" % (svc, n, _point_class(point, n))
        if got == "RELRP":
            counters["release_rp_seen"] = counters.get("release_rp_seen", 0) + 1
            if not acc.is_released or hist["released"] != 1 or acc.is_aborted:
                viol.append({"key": "acceptor-outcome-after-release-rp|%s" % pt, "detail": "%r" % obs})
        elif got == "ABORT":
            # nobody in this workload asks pynetdicom to abort: an A-ABORT here is its own timeout firing after the
            # release request was swallowed, i.e. the request was NOT answered
            counters["aborted_instead"] = counters.get("aborted_instead", 0) + 1
            waited = time.time() - (rel_sent["t"] or time.time())
            viol.append({"key": "release-answered-with-abort|acceptor|%s" % pt,
                         "detail": "A-ABORT %.1f s after the A-RELEASE-RQ instead of A-RELEASE-RP; %r" % (waited, obs)})
        else:
            viol.append({"key": "release-not-answered|acceptor|%s" % pt, "detail": "peer saw %r within 8 s after A-RELEASE-RQ; %r" % (got, obs)})
        for e in taps.State.excs:
            viol.append({"key": "exception-escaped|%s|%s" % (e["type"], e["where"]), "detail": "%r" % e})
        for pr in taps.State.fsm_problems:
            viol.append({"key": "fsm|%s|%s" % (pr["kind"], pr.get("pair") or pr.get("action")), "detail": "%r" % pr})
        if not quiet:
            viol.append({"key": "threads-left|acceptor|%s" % pt, "detail": "%r" % [(a.mode, al, dl, s) for (a, al, dl, s) in taps.assoc_threads() if al or dl]})
        return viol, obs, None
    finally:
        for _ in range(8):
            gate.release()
        p.close()
        harness.stop_ae(ae, 3.0)
        harness.stop_ae(dest_ae, 3.0)


def _point_class(point, n):
    if isinstance(point, int):
        if point == 0:
            return "before-first-yield" if n else "before-generator-end"
        if point < n:
            return "between-yields"
        if point == n:
            return "after-last-yield"
        return "after-final-response"
    return str(point)


def _serve(p, m, seen):
    """Answer what pynetdicom sends to the peer (C-STORE sub-operations) and log responses."""
    if not m.get("cmd"):
        seen.append("incomplete")
        return
    cf = m["cmd"].get("CommandField")
    seen.append("%04x:%s" % (cf or 0, m["cmd"].get("Status")))
    if cf == 0x0001:
        rsp = cmdset.make("C-STORE-RSP", AffectedSOPClassUID=m["cmd"].get("AffectedSOPClassUID", CT), MessageIDBeingRespondedTo=m["cmd"].get("MessageID", 1),
                          Status=0, AffectedSOPInstanceUID=m["cmd"].get("AffectedSOPInstanceUID", "1.2.3"))
        p.send_dimse(m["ctx"], rsp)


def run_requestor(case, counters):
    """pynetdicom as SCU; the scripted acceptor requests the release after an operation whose response iterator was
    exhausted or abandoned at the final status."""
    from pynetdicom import evt, build_role
    from pydicom.dataset import Dataset
    taps.reset()
    viol = []
    svc, n, how = case["svc"], case["n"], case["point"]
    ae = harness.make_ae(title="SCU", timeouts=(1.0, 2.0, 4.0, 1.0), requested=[VER, FIND, GET, MOVE, CT])
    lst = vpeer.Listener()
    hist = {"released": 0, "aborted": 0}
    res = {}
    done_op = threading.Event()
    answer = {}

    def script():
        q = lst.accept(5.0)
        if q is None:
            return
        try:
            rq, ac = vpeer.accept_association(q)
            if ac is None:
                return
            ctx_of = {pc["abs"]: pc["id"] for pc in rq["pcs"]}
            m = q.recv_dimse(5.0)
            if m and m.get("type") == "DIMSE":
                cf = m["cmd"]["CommandField"]
                mid = m["cmd"].get("MessageID", 1)
                sop = m["cmd"].get("AffectedSOPClassUID")
                if cf == 0x0030:
                    q.send_dimse(m["ctx"], cmdset.c_echo_rsp(mid))
                else:
                    for i in range(n):
                        kw = dict(AffectedSOPClassUID=sop, MessageIDBeingRespondedTo=mid, Status=0xFF00)
                        if cf == 0x0020:
                            q.send_dimse(m["ctx"], cmdset.make("C-FIND-RSP", CommandDataSetType=0, **kw), IDENT)
                        else:
                            kw.update(NumberOfRemainingSuboperations=n - i, NumberOfCompletedSuboperations=i, NumberOfFailedSuboperations=0, NumberOfWarningSuboperations=0)
                            q.send_dimse(m["ctx"], cmdset.make({0x0010: "C-GET-RSP", 0x0021: "C-MOVE-RSP"}[cf], **kw))
                    kw = dict(AffectedSOPClassUID=sop, MessageIDBeingRespondedTo=mid, Status=0x0000)
                    if cf != 0x0020:
                        kw.update(NumberOfCompletedSuboperations=n, NumberOfFailedSuboperations=0, NumberOfWarningSuboperations=0)
                    q.send_dimse(m["ctx"], cmdset.make({0x0020: "C-FIND-RSP", 0x0010: "C-GET-RSP", 0x0021: "C-MOVE-RSP"}[cf], **kw))
            done_op.wait(5.0)
            time.sleep(0.05)
            q.send_pdu({"type": "RELRQ"})
            r = q.recv_pdu(5.0)
            answer["type"] = r and r.get("type")
            q.wait_eof(2.0)
        finally:
            q.close()
    th = threading.Thread(target=script, daemon=True)
    th.start()
    try:
        assoc = ae.associate("127.0.0.1", lst.port, evt_handlers=[
            (evt.EVT_RELEASED, lambda e: hist.__setitem__("released", hist["released"] + 1)),
            (evt.EVT_ABORTED, lambda e: hist.__setitem__("aborted", hist["aborted"] + 1))])
        if not assoc.is_established:
            return [], {"setup": "not established"}, "setup failed"
        ident = Dataset(); ident.QueryRetrieveLevel = "PATIENT"; ident.PatientName = "*"
        if svc == "echo":
            assoc.send_c_echo()
        else:
            it = {"find": lambda: assoc.send_c_find(ident, FIND), "get": lambda: assoc.send_c_get(ident, GET),
                  "move": lambda: assoc.send_c_move(ident, "DEST", MOVE)}[svc]()
            statuses = []
            if how == "exhausted":
                for st, _ in it:
                    statuses.append(getattr(st, "Status", None))
            else:
                for st, _ in it:                       # the caller stops at the final status and never touches the iterator again
                    statuses.append(getattr(st, "Status", None))
                    if getattr(st, "Status", None) not in (0xFF00, 0xFF01):
                        break
            res["statuses"] = statuses
            res["iterator"] = it            # keep it alive (suspended) - not garbage collected
        done_op.set()
        th.join(9.0)
        harness.wait_for(lambda: not assoc.is_established, 3.0)
        quiet, _ = taps.wait_quiet(6.0)
        counters["requestor_points"] = counters.get("requestor_points", 0) + 1
        obs = {"answer": answer.get("type"), "statuses": res.get("statuses"), "released": assoc.is_released, "aborted": assoc.is_aborted,
               "evt_released": hist["released"], "evt_aborted": hist["aborted"]}
        pt = "%s|n=%d|iterator-%s" % (svc, n, how)
        if answer.get("type") == "RELRP":
            counters["release_rp_seen"] = counters.get("release_rp_seen", 0) + 1
            counters["points_reached"] = counters.get("points_reached", 0) + 1
            if not assoc.is_released or hist["released"] != 1 or assoc.is_aborted:
                viol.append({"key": "requestor-outcome-after-release-rp|%s" % pt, "detail": "%r" % obs})
        elif answer.get("type") == "ABORT":
            counters["aborted_instead"] = counters.get("aborted_instead", 0) + 1
            viol.append({"key": "release-answered-with-abort|requestor|%s" % pt, "detail": "%r" % obs})
        else:
            viol.append({"key": "release-not-answered|requestor|%s" % pt, "detail": "scripted acceptor saw %r after its A-RELEASE-RQ; %r" % (answer.get("type"), obs)})
        for e in taps.State.excs:
            viol.append({"key": "exception-escaped|%s|%s" % (e["type"], e["where"]), "detail": "%r" % e})
        if not quiet:
            viol.append({"key": "threads-left|requestor|%s" % pt, "detail": "%r" % [(a.mode, al, dl, s) for (a, al, dl, s) in taps.assoc_threads() if al or dl]})
        return viol, obs, None
    finally:
        lst.close()
        harness.stop_ae(ae, 3.0)


def run_case(case):
    counters = {}
    out = (run_acceptor if case["role"] == "acceptor" else run_requestor)(case, counters)
    viol, obs, inc = out
    return {"key": sha([case["role"], case["svc"], case["n"], case["point"], bool(case.get("pipelined")), bool(case.get("plain")), bool(case.get("in_transition"))]), "nontrivial": bool(counters.get("points_reached")),
            "sample": {"case": case, "observed": obs}, "violations": viol, "counters": counters, "inconclusive": inc}
