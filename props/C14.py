"""C14 — concurrent acceptor associations never exceed the configured maximum.

Invariant at a hook + sampler + offline interval check: M in {1,2,3,5}, N scripted requestors released from a barrier
(N from M-1 to 4M), random hold times, associations ending while others negotiate, seeded yields inside
ACSE._negotiate_as_acceptor between the count and `is_established = True`.
  * EVT_ESTABLISHED handler (runs in the association's own thread right after the flag is set) counts the acceptor
    associations of the AE whose is_established flag is True -> must be <= M
  * a 2 kHz sampler does the same count independently
  * offline: the intervals [ESTABLISHED, terminal event) taken from one lock-ordered log never overlap more than M times
  * every rejection seen by a requestor carries (result, source, reason) = (2, 3, 2); with N <= M nobody is rejected
"""
import threading
import time

from vlib import cmdset, harness, peer as vpeer, ps38, sched, taps
from vlib.common import rng_for, sha

PID = "C14"
LEVEL = "exploration"
RULE = ("rounds (M, N, hold-time plan, yield seed): N scripted requestors connect through a barrier to one real acceptor AE with "
        "maximum_associations = M; distinct = (M, N, observed peak, accepted/rejected counts, yield seed); non-trivial = at least "
        "M associations were established at the same time or at least one request was rejected")
ASSUMPTIONS = ["'established' = Association.is_established on acceptor associations of that AE (what the property's observe_at names: "
               "EVT_ESTABLISHED .. EVT_RELEASED/EVT_ABORTED)", "the 2 kHz sampler can miss sub-millisecond excursions; the hook and the interval check cannot"]
WORKERS = {"quick": 16, "thorough": 16}
REQUIRE = {"rounds": 100, "rounds_peak_equals_max": 30, "rejections_seen": 50, "yield_hits": 200, "sampler_samples": 5000}
VER = "1.2.840.10008.1.1"
YP = None


def setup_worker():
    global YP
    harness.quiet_logging()
    taps.install()
    from pynetdicom.acse import ACSE
    pts = [(ACSE._negotiate_as_acceptor, "active_acceptors = [", 0),
           (ACSE._negotiate_as_acceptor, "if len(active_acceptors) > self.assoc.ae.maximum_associations", 0),
           (ACSE._negotiate_as_acceptor, "if reject_assoc_rsd:", 0),
           (ACSE._negotiate_as_acceptor, "self.send_accept()", 0),
           (ACSE._negotiate_as_acceptor, "self.assoc.is_established = True", 0)]
    YP = sched.YieldPoints(pts, seed=0, p_yield=0.7, max_delay=0.006)
    YP.install()


def gen_cases(tier, seed):
    rng = rng_for(seed, PID, "gen")
    n = 200 if tier == "quick" else 20000
    cases = []
    for i in range(n):
        m = rng.choice([1, 2, 3, 5])
        nn = rng.choice([max(1, m - 1), m, m + 1, 2 * m, 3 * m, 4 * m])
        cases.append({"M": m, "N": nn, "seed": seed, "i": i, "yields": i % 4 != 0,
                      "hold": rng.choice(["zero", "short", "mixed", "long"]), "waves": rng.choice([1, 1, 2])})
    return cases


def run_case(case):
    from pynetdicom import evt
    rng = rng_for(case["seed"], PID, case["i"])
    taps.reset()
    M, N = case["M"], case["N"]
    ae = harness.make_ae(timeouts=(2.0, 2.0, 3.0, 2.0), supported=[VER])
    ae.maximum_associations = M
    log = []
    lock = threading.Lock()
    hook_max = {"v": 0}

    def count_established():
        return sum(1 for a in ae.active_associations if a.is_acceptor and a.is_established)

    def on_est(event):
        c = count_established()
        with lock:
            log.append(("est", id(event.assoc), c))
            hook_max["v"] = max(hook_max["v"], c)

    def on_end(event):
        with lock:
            log.append(("end", id(event.assoc), 0))
    server, port = harness.start_server(ae, [(evt.EVT_ESTABLISHED, on_est), (evt.EVT_RELEASED, on_end), (evt.EVT_ABORTED, on_end),
                                              (evt.EVT_C_ECHO, lambda e: 0x0000)])
    stop = threading.Event()
    sampler = {"max": 0, "n": 0}

    def sample():
        while not stop.is_set():
            c = count_established()
            sampler["n"] += 1
            if c > sampler["max"]:
                sampler["max"] = c
            time.sleep(0.0005)
    st = threading.Thread(target=sample, daemon=True)
    st.start()
    YP.reseed(rng.getrandbits(32))
    YP.enabled = bool(case["yields"])
    results = []
    barrier = threading.Barrier(N)

    def hold_time():
        h = case["hold"]
        if h == "zero":
            return 0.0
        if h == "short":
            return rng.uniform(0, 0.01)
        if h == "long":
            return rng.uniform(0.03, 0.08)
        return rng.choice([0.0, 0.005, 0.02, 0.05])
    holds = [hold_time() for _ in range(N * case["waves"])]

    def requestor(k):
        for w in range(case["waves"]):
            try:
                if w == 0:
                    barrier.wait(5.0)
                p = vpeer.Peer.connect(port)
            except Exception as exc:
                results.append(("connect-failed", repr(exc)))
                return
            try:
                rsp = p.associate(ps38.make_rq(calling="R%d" % k), timeout=6.0)
                if rsp is None:
                    results.append(("no-answer", None))
                elif rsp["type"] == "AC":
                    time.sleep(holds[k * case["waves"] + w])
                    if rng.random() < 0.3:
                        p.echo()
                    if rng.random() < 0.8:
                        r = p.release(3.0)
                    else:
                        p.abort()
                    results.append(("accepted", None))
                elif rsp["type"] == "RJ":
                    results.append(("rejected", (rsp["result"], rsp["source"], rsp["reason"])))
                else:
                    results.append((rsp["type"], None))
            finally:
                p.close()
    threads = [threading.Thread(target=requestor, args=(k,), daemon=True) for k in range(N)]
    for t in threads:
        t.start()
    for t in threads:
        t.join(20.0)
    quiet, _ = taps.wait_quiet(8.0)
    stop.set()
    st.join(1.0)
    YP.enabled = False
    hits = sum(YP.hits.values())
    harness.stop_ae(ae, 3.0)
    # ---- verdicts
    viol = []
    if hook_max["v"] > M:
        viol.append({"key": "more-than-maximum-established|hook", "detail": "M=%d N=%d: EVT_ESTABLISHED hook counted %d established acceptor associations" % (M, N, hook_max["v"])})
    if sampler["max"] > M:
        viol.append({"key": "more-than-maximum-established|sampler", "detail": "M=%d N=%d: sampler saw %d established" % (M, N, sampler["max"])})
    cur = 0
    peak = 0
    open_ids = set()
    with lock:
        events = list(log)
    for kind, aid, _ in events:
        if kind == "est":
            open_ids.add(aid); cur = len(open_ids); peak = max(peak, cur)
        elif aid in open_ids:
            open_ids.discard(aid)
    if peak > M:
        viol.append({"key": "more-than-maximum-established|interval-overlap", "detail": "M=%d N=%d: %d [ESTABLISHED, terminal) intervals overlap; log=%r" % (M, N, peak, events[:40])})
    rej = [r for r in results if r[0] == "rejected"]
    acc = [r for r in results if r[0] == "accepted"]
    for r in rej:
        if r[1] != (2, 3, 2):
            viol.append({"key": "wrong-rejection-codes|%r" % (r[1],), "detail": "M=%d N=%d: A-ASSOCIATE-RJ with (result, source, reason)=%r, want (2,3,2)" % (M, N, r[1])})
    if N * 1 <= M and case["waves"] == 1 and rej:
        viol.append({"key": "rejected-below-limit", "detail": "M=%d N=%d: %d requests rejected although N <= M" % (M, N, len(rej))})
    other = [r for r in results if r[0] not in ("accepted", "rejected")]
    inconclusive = None
    if other:
        inconclusive = "unexpected requestor outcomes: %r" % other[:4]
    for e in taps.State.excs:
        viol.append({"key": "exception-escaped|%s|%s" % (e["type"], e["where"]), "detail": "%r" % e})
    counters = {"rounds": 1, "rounds_peak_equals_max": 1 if max(peak, hook_max["v"]) == M else 0, "rejections_seen": len(rej),
                "accepted": len(acc), "yield_hits": hits, "sampler_samples": sampler["n"], "established_events": sum(1 for e in events if e[0] == "est")}
    return {"key": sha([M, N, peak, len(acc), len(rej), case["yields"], case["hold"]]), "nontrivial": peak >= M or bool(rej),
            "sample": {"case": case, "observed": {"peak_hook": hook_max["v"], "peak_sampler": sampler["max"], "peak_intervals": peak,
                                                 "accepted": len(acc), "rejected": len(rej), "rj_codes": sorted(set(r[1] for r in rej)), "yield_hits": hits}},
            "violations": viol, "counters": counters, "inconclusive": inconclusive}
