"""C18 — outgoing messages use an accepted presentation context compatible with their content.

Two monitors over executions of the REAL pynetdicom code.

(1) WIRE MONITOR + send_msg TAP.  Real two-AE associations on loopback (plus a third AE as C-MOVE destination) with
    GENERATED requested/supported context sets (several contexts per abstract syntax with different transfer syntaxes,
    role proposals/replies SCU-only / SCP-only / both / none, contexts rejected by the acceptor) run every send
    operation of the public API from BOTH sides (requestor: C-ECHO/STORE/FIND/GET/MOVE/CANCEL, N-*; acceptor: C-STORE
    sub-operations of C-GET, C-MOVE sub-operations on the third association, and direct send_c_store / send_c_echo /
    send_n_event_report calls on the acceptor's association object).  Everything is judged from the bytes on the
    socket proxies (vlib.taps), decoded with the reference codecs only (vlib.ps38, vlib.dimse_ref, pydicom):

      * accepted set        = result-0 items of the A-ASSOCIATE-AC bytes; abstract syntax of an id from the RQ bytes;
                              transfer syntax from the AC bytes
      * roles               = SCP/SCU role-selection items of the RQ and AC bytes through the documented role table
                              (vlib.refneg.DOC_TABLE / PS3.7 D.3.3.4); no item => requestor SCU, acceptor SCP
      * every DIMSE message a side TRANSMITS (reassembled with dimse_ref.reassemble) must
          - use an accepted context id                                       context-not-accepted|<op>
          - on a context whose abstract syntax is the message's Affected/Requested SOP Class UID or a documented
            substitution (below)                                             abstract-syntax-mismatch|<op>
          - on which the sending side holds the needed role: SCU for requests, SCP for non-refusing responses
                                                                             role-missing|<op>|<side>
          - carry a data set that decodes (pydicom alone) under THAT context's transfer syntax - and, where the
            workload knows what was given to the API, to exactly that dataset
                                                 dataset-not-in-context-transfer-syntax|<actual>-><context>
                                                 dataset-differs|<op>
          - never carry encapsulated pixel data on an uncompressed context or native pixel data on a compressed one
                                                 compressed-pixel-data-on-uncompressed-context|...
          - if the dataset's original syntax differs from the context's: both uncompressed (deflated counts as
            uncompressed) with equal byte order                converted-across-byte-order / converted-compressed|..
            and no conversion at all where the API documents that an exact match is required
            (_config.STORE_SEND_CHUNKED_DATASET)               converted-although-exact-match-required
      * a context id the CALLER passes (send_c_cancel(msg_id, context_id=N)) is judged by the same rules but keyed as its
        own family                                   user-supplied-context-id|<op>|context-not-accepted / role-missing
      * an operation the API REFUSED (ValueError / RuntimeError / AttributeError) must leave nothing on the wire
                                                                             refused-but-sent|<op>
      * the tap on DIMSEServiceProvider.send_msg (primitive type, SOP class, context id per association) must agree
        with the wire message it produced                                    tap-wire-mismatch|<what>

    DOCUMENTED SUBSTITUTIONS ACCEPTED (abstract syntax != SOP class of the message):
      S1  UPS Push SOP class as Affected/Requested SOP Class on a context accepted for UPS Pull / Watch / Event / Query
          (docs/changelog/v1.5.2.rst; comment in _get_valid_context) - only when NO UPS Push context was accepted.
      S2  `meta_uid` of send_n_*: "If the service class operates under a presentation context negotiated using a Meta
          SOP Class ... this value will be used to determine the corresponding presentation context" - accepted only
          for the message ids for which the workload passed that meta_uid (and the responses to them).
      SOP Class Common Extended negotiation and _config.UNRESTRICTED_STORAGE_SERVICE are documented for the RECEIVING
      side only (which service class serves a request); neither documents a sender-side substitution, so none is
      accepted: with UNRESTRICTED_STORAGE_SERVICE the private storage SOP class must still travel on a context whose
      abstract syntax is that SOP class.

(2) POSTCONDITION on the real Association._get_valid_context(ab_syntax, tr_syntax, role, context_id,
    allow_conversion), (a) called directly on an (unstarted) Association whose accepted-context table is generated,
    (b) on every call the workloads of (1) make.  Reference `ref_valid_contexts` is written from the docstring and the
    property statement and imports nothing from pynetdicom: result is accepted, abstract syntax matches (or S1), holds
    the requested role, is the context `context_id` when that id is accepted, exact transfer-syntax match preferred,
    otherwise (only if allow_conversion) an uncompressed context of the same byte order for an uncompressed syntax;
    ValueError iff no context qualifies.                                      get_valid_context|<what>
"""
from __future__ import annotations

import copy
import io
import os
import shutil
import tempfile
import threading
import time
import warnings
import zlib

from vlib import dimse_ref as R, ps38, refneg
from vlib.common import rng_for, sha

PID = "C18"
LEVEL = "exploration"
RULE = ("seeded generation of association scenarios: 3-8 abstract syntaxes (Verification, 3 storage classes, Q/R FIND/GET/"
        "MOVE, print meta + film session + printer, MPPS, storage commitment, the 5 UPS classes, a private storage class "
        "with UNRESTRICTED_STORAGE_SERVICE) x 1-3 requested contexts each with 1-2 transfer syntaxes out of {implicit LE, "
        "explicit LE, explicit BE, deflated, JPEG baseline, RLE} x role proposals {none, 1/1, 1/0, 0/1} x acceptor "
        "support {unsupported, transfer-syntax subset in own order, role replies none/TT/TF/FT/FF} x 6-14 operations from "
        "both sides with datasets {in-memory, dcmread, file path, file path chunked} in each of the 6 syntaxes, "
        "inconsistent file-meta/encoding pairs and pydicom-compressed (RLE) datasets, max PDU 0/70/256/16382; plus blocks "
        "of direct _get_valid_context evaluations over generated accepted tables (1-8 contexts, all role pairs, 7 "
        "syntaxes, 9 abstract syntaxes) x queries (role None/scu/scp, context_id none/accepted/unknown, "
        "allow_conversion on/off, tr '' or any syntax).  distinct = signatures (side, op, context transfer syntax, "
        "local roles, dataset origin syntax, how given, outcome) of checked wire messages/refusals + SHA-1 of direct "
        "evaluation inputs; non-trivial = a message was transmitted or refused / the accepted table has >= 2 contexts")
ASSUMPTIONS = [
    "roles are judged from the role-selection items on the wire through the documented table (vlib.refneg); an AC "
    "reply to a role that was never proposed, or one granting a role proposed as 0, is outside the table: role checks "
    "are skipped for such contexts and counted (roles_outside_table)",
    "N-EVENT-REPORT requests/responses are not subjected to the role check: pynetdicom deliberately ignores the "
    "negotiated role for them (comment in send_n_event_report: the SCP sends the request to the SCU); counted as "
    "n_event_report_role_not_asserted",
    "responses with a Failure status (0x01xx/0x02xx/0xAxxx/0xCxxx) are the documented way to refuse a request and are "
    "not subjected to the role check",
    "a dataset's original syntax is file_meta.TransferSyntaxUID; for a dataset whose pydicom original_encoding "
    "contradicts it, send_c_store documents (warning text) that the actual encoding is used instead, so either is "
    "accepted as origin - but the physical rule (encapsulated pixel data <=> compressed context, equal byte order) is "
    "always asserted",
    "private/unknown transfer syntaxes are not generated (pydicom needs UID.set_private_encoding for them)",
    "_get_valid_context with tr_syntax '' and allow_conversion False is not evaluated (docstring is contradictory "
    "there; no caller uses it); UPS Push together with an explicit context_id is not evaluated either",
    "an operation refused by the API is only required to leave nothing on the wire; whether it had to be refused is "
    "decided by monitor (2), not from the outcome of the send",
]
WORKERS = {"quick": 16, "thorough": 16}
MAX_INCONCLUSIVE_FRAC = 0.05
REQUIRE = {
    "wire_messages_checked": 1200, "requests_checked": 400, "responses_checked": 400,
    "datasets_decoded": 500, "datasets_compared": 300, "store_rq_checked": 120, "store_converted": 15,
    "store_exact": 40, "subops_get_sent": 20, "subops_move_sent": 8, "acceptor_side_requests": 40,
    "refused_ops": 60, "refused_nothing_on_wire": 60, "contexts_accepted": 300, "contexts_rejected": 40,
    "role_scp_only_contexts": 20, "role_both_contexts": 20, "ups_substitutions": 4, "meta_substitutions": 4,
    "ctx_ts_be": 10, "ctx_ts_deflated": 10, "ctx_ts_compressed": 10, "from_ts_compressed_sent": 5,
    "gvc_direct_evals": 15000, "gvc_direct_raises": 2000, "gvc_direct_exact": 1500, "gvc_direct_converted": 600,
    "gvc_live_calls": 400, "tap_sends": 1200, "peer_subop_cases": 8,
    "sent_C-ECHO-RQ": 40, "sent_C-STORE-RQ": 150, "sent_C-FIND-RQ": 40, "sent_C-GET-RQ": 60, "sent_C-MOVE-RQ": 30,
    "sent_C-CANCEL-RQ": 5, "sent_N-GET-RQ": 8, "sent_N-SET-RQ": 8, "sent_N-ACTION-RQ": 15, "sent_N-CREATE-RQ": 8,
    "sent_N-DELETE-RQ": 2, "sent_N-EVENT-REPORT-RQ": 20, "sent_C-STORE-RSP": 150, "sent_C-FIND-RSP": 80,
    "ds_how_mem": 100, "ds_how_read": 100, "ds_how_path": 60, "ds_how_chunked": 60, "ds_inconsistent": 30,
}

# ----------------------------------------------------------------------------------------------- constants
IMPL = "1.2.840.10008.1.2"
EXPL = "1.2.840.10008.1.2.1"
BE = "1.2.840.10008.1.2.2"
DEFL = "1.2.840.10008.1.2.1.99"
JPEG = "1.2.840.10008.1.2.4.50"
RLE = "1.2.840.10008.1.2.5"
J2K = "1.2.840.10008.1.2.4.90"
TS = {"impl": IMPL, "expl": EXPL, "be": BE, "defl": DEFL, "jpeg": JPEG, "rle": RLE, "j2k": J2K}
TS_NAME = {v: k for k, v in TS.items()}
UNCOMPRESSED = (IMPL, EXPL, BE, DEFL)          # PS3.5 A.1-A.3, A.5: no encapsulated pixel data
NATIVE_ENCS = ("impl", "expl", "be", "defl")

VERIF = "1.2.840.10008.1.1"
CT = "1.2.840.10008.5.1.4.1.1.2"
MR = "1.2.840.10008.5.1.4.1.1.4"
SC = "1.2.840.10008.5.1.4.1.1.7"
US_ = "1.2.840.10008.5.1.4.1.1.6.1"       # never proposed by the generator: sends of it must be refused
PRIV_STORAGE = "1.2.826.0.1.3680043.9.3811.18.1"
STORAGE = (CT, MR, SC)
P_FIND, P_MOVE, P_GET = ("1.2.840.10008.5.1.4.1.2.1.1", "1.2.840.10008.5.1.4.1.2.1.2", "1.2.840.10008.5.1.4.1.2.1.3")
S_FIND, S_MOVE, S_GET = ("1.2.840.10008.5.1.4.1.2.2.1", "1.2.840.10008.5.1.4.1.2.2.2", "1.2.840.10008.5.1.4.1.2.2.3")
PRINT_META = "1.2.840.10008.5.1.1.9"
FILM_SESSION = "1.2.840.10008.5.1.1.1"
PRINTER = "1.2.840.10008.5.1.1.16"
PRINTER_INST = "1.2.840.10008.5.1.1.17"
MPPS = "1.2.840.10008.3.1.2.3.3"
COMMIT = "1.2.840.10008.1.20.1"
COMMIT_INST = "1.2.840.10008.1.20.1.1"
UPS_PUSH = "1.2.840.10008.5.1.4.34.6.1"
UPS_PULL = "1.2.840.10008.5.1.4.34.6.2"
UPS_WATCH = "1.2.840.10008.5.1.4.34.6.3"
UPS_EVENT = "1.2.840.10008.5.1.4.34.6.4"
UPS_QUERY = "1.2.840.10008.5.1.4.34.6.5"
UPS_OTHERS = (UPS_PULL, UPS_WATCH, UPS_EVENT, UPS_QUERY)
INST_ROOT = "1.2.826.0.1.3680043.9.3811.18."

REFUSALS = (ValueError, RuntimeError, AttributeError)


def ts_compressed(ts):
    return ts not in UNCOMPRESSED


def ts_little(ts):
    return ts != BE


def ts_label(ts):
    return TS_NAME.get(ts, "other")


def convertible(a, b):
    """Property statement: only between uncompressed syntaxes of the same byte order (deflated = uncompressed)."""
    return a == b or (not ts_compressed(a) and not ts_compressed(b) and ts_little(a) == ts_little(b))


# ----------------------------------------------------------------------------------------------- reference (pure)

def ref_valid_contexts(accepted, ab, tr, role, context_id, allow_conversion):
    """accepted: [{'id','abs','ts','scu','scp'}].  Returns (allowed_ids, how) - the set of context ids the real
    function may return ('exact' | 'convertible' | 'any' | None); empty set <=> ValueError required."""
    byid = {c["id"]: c for c in accepted}
    cands = [byid[context_id]] if context_id in byid else sorted(accepted, key=lambda c: c["id"])
    sel = [c for c in cands if c["abs"] == ab]
    if ab == UPS_PUSH and not sel:
        sel = [c for c in cands if c["abs"] in UPS_OTHERS]
    if role == "scu":
        sel = [c for c in sel if c["scu"] is True]
    elif role == "scp":
        sel = [c for c in sel if c["scp"] is True]
    if tr == "":
        return {c["id"] for c in sel}, ("any" if sel else None)
    exact = [c for c in sel if c["ts"] == tr]
    if exact:
        return {c["id"] for c in exact}, "exact"
    if allow_conversion:
        conv = [c for c in sel if convertible(tr, c["ts"])]
        if conv:
            return {c["id"] for c in conv}, "convertible"
    return set(), None


def classify_gvc(accepted, ab, tr, role, context_id, allow_conversion, outcome):
    """outcome: ('ok', id) | ('raise', exc type name).  Returns (violation key suffix | None, how)."""
    allowed, how = ref_valid_contexts(accepted, ab, tr, role, context_id, allow_conversion)
    kind, val = outcome
    if kind == "raise":
        if val != "ValueError":
            return "other-exception|" + val, how
        if allowed:
            return "raised-although-qualifying|" + how, how
        return None, how
    byid = {c["id"]: c for c in accepted}
    cx = byid.get(val)
    if cx is None:
        return "returned-context-not-accepted", how
    if val in allowed:
        return None, how
    if not (cx["abs"] == ab or (ab == UPS_PUSH and cx["abs"] in UPS_OTHERS
                                and not any(c["abs"] == ab for c in accepted))):
        return "abstract-syntax-mismatch", how
    if cx["abs"] != ab and context_id not in byid and any(c["abs"] == ab for c in accepted):
        return "abstract-syntax-mismatch", how
    if role == "scu" and cx["scu"] is not True:
        return "role-missing|scu", how
    if role == "scp" and cx["scp"] is not True:
        return "role-missing|scp", how
    if context_id in byid and val != context_id:
        return "context-id-ignored", how
    if not allowed:
        if tr and cx["ts"] != tr:
            if ts_compressed(tr) or ts_compressed(cx["ts"]):
                return "no-error-although-none-qualifies|compressed-not-convertible", how
            if ts_little(tr) != ts_little(cx["ts"]):
                return "no-error-although-none-qualifies|byte-order", how
            if not allow_conversion:
                return "no-error-although-none-qualifies|conversion-disallowed", how
        return "no-error-although-none-qualifies", how
    if how == "exact":
        return "exact-match-not-preferred", how
    if ts_compressed(tr) or ts_compressed(cx["ts"]):
        return "not-convertible|compressed", how
    if ts_little(tr) != ts_little(cx["ts"]):
        return "not-convertible|byte-order", how
    return "result-outside-allowed-set", how


# ----------------------------------------------------------------------------------------------- taps (worker side)
_LOCK = threading.Lock()
_TAP = {"sends": [], "gvc": []}


def _uid(x):
    return None if x is None else str(x)


def setup_worker():
    from vlib import taps, harness
    harness.quiet_logging()
    warnings.simplefilter("ignore")
    taps.install()
    from pynetdicom.dimse import DIMSEServiceProvider
    from pynetdicom.association import Association

    orig_send = DIMSEServiceProvider.send_msg

    def send_msg(self, primitive, context_id):
        try:
            rec = {"assoc": id(self.assoc), "type": type(primitive).__name__,
                   "rq": getattr(primitive, "MessageIDBeingRespondedTo", None) is None
                   or type(primitive).__name__ == "C_CANCEL",
                   "sop": _uid(getattr(primitive, "AffectedSOPClassUID", None)
                               or getattr(primitive, "RequestedSOPClassUID", None)),
                   "ctx": context_id,
                   "msg_id": getattr(primitive, "MessageID", None),
                   "rsp_to": getattr(primitive, "MessageIDBeingRespondedTo", None)}
            with _LOCK:
                _TAP["sends"].append(rec)
        except Exception as exc:  # the monitor must never disturb the send
            rec = {"assoc": id(self.assoc), "tap_error": repr(exc)}
            with _LOCK:
                _TAP["sends"].append(rec)
        try:
            return orig_send(self, primitive, context_id)
        except BaseException:
            rec["failed"] = True          # nothing (complete) can have reached the wire for this call
            raise

    DIMSEServiceProvider.send_msg = send_msg

    orig_gvc = Association._get_valid_context

    def _get_valid_context(self, ab_syntax, tr_syntax, role=None, context_id=None, allow_conversion=True):
        snap = None
        try:
            snap = [{"id": cx.context_id, "abs": str(cx.abstract_syntax), "ts": str(cx.transfer_syntax[0]),
                     "scu": cx.as_scu, "scp": cx.as_scp} for cx in self._accepted_cx.values()]
        except Exception:
            pass
        rec = {"assoc": id(self), "accepted": snap, "ab": str(ab_syntax), "tr": str(tr_syntax), "role": role,
               "context_id": context_id, "allow_conversion": allow_conversion, "outcome": None}
        try:
            cx = orig_gvc(self, ab_syntax, tr_syntax, role, context_id, allow_conversion)
            rec["outcome"] = ("ok", getattr(cx, "context_id", None))
            return cx
        except BaseException as exc:
            rec["outcome"] = ("raise", type(exc).__name__)
            raise
        finally:
            if not getattr(self, "_c18_direct", False):
                with _LOCK:
                    _TAP["gvc"].append(rec)

    Association._get_valid_context = _get_valid_context


def _tap_reset():
    with _LOCK:
        _TAP["sends"] = []
        _TAP["gvc"] = []


# ----------------------------------------------------------------------------------------------- datasets

def inst_uid(case_no, k):
    return INST_ROOT + "%d.%d" % (case_no + 1, k + 1)


FAKE_JPEG = b"\xff\xd8\xff\xe0\x00\x10JFIF\x00C18-fake-frame\xff\xd9"


def base_dataset(sop, inst, pix):
    """pix: None | 'native' | 'encaps'"""
    from pydicom.dataset import Dataset
    from pydicom.encaps import encapsulate
    ds = Dataset()
    ds.SOPClassUID = sop
    ds.SOPInstanceUID = inst
    ds.PatientName = "C18^Patient"
    ds.PatientID = "ID" + inst.rsplit(".", 1)[-1]
    ds.StudyDate = "20240102"
    ds.Modality = "OT"
    item = Dataset()
    item.ReferencedSOPClassUID = sop
    item.ReferencedSOPInstanceUID = inst + ".9"
    ds.ReferencedImageSequence = [item]
    if pix:
        ds.SamplesPerPixel = 1
        ds.PhotometricInterpretation = "MONOCHROME2"
        ds.Rows = 2
        ds.Columns = 2
        ds.PixelRepresentation = 0
        if pix == "native":
            ds.BitsAllocated = 16
            ds.BitsStored = 16
            ds.HighBit = 15
            ds.PixelData = b"\x01\x02\x03\x04\x05\x06\x07\x08"
            ds["PixelData"].VR = "OW"
        else:
            ds.BitsAllocated = 8
            ds.BitsStored = 8
            ds.HighBit = 7
            ds.PixelData = encapsulate([FAKE_JPEG])
            ds["PixelData"].VR = "OB"
            ds["PixelData"].is_undefined_length = True
    return ds


def small_dataset(tag):
    from pydicom.dataset import Dataset
    ds = Dataset()
    ds.PatientName = "C18^%s" % tag
    ds.PatientID = "P%s" % tag
    ds.StudyDate = "20240102"
    ds.Rows = 513          # a US value: differs visibly between byte orders
    return ds


def identifier(tag):
    from pydicom.dataset import Dataset
    ds = Dataset()
    ds.QueryRetrieveLevel = "PATIENT"
    ds.PatientID = "Q%s" % tag
    ds.PatientName = ""
    ds.Rows = 258
    return ds


def canon(ds):
    """Dataset -> nested plain structure (tag, value); independent of the VR spelling / encoding."""
    out = []
    for elem in ds:
        if elem.tag.group == 0x0002:
            continue
        if elem.VR == "SQ":
            out.append(["%08x" % int(elem.tag), [canon(i) for i in elem.value]])
            continue
        v = elem.value
        if isinstance(v, (bytes, bytearray)):
            v = bytes(v)
            if len(v) % 2:
                v += b"\0"
            v = "hex:" + v.hex()
        elif isinstance(v, (list, tuple)) or hasattr(v, "__iter__") and not isinstance(v, str):
            try:
                v = [str(x) for x in v]
            except TypeError:
                v = str(v)
        else:
            v = str(v)
        out.append(["%08x" % int(elem.tag), v])
    return out


def decode_under(data, ts):
    """Decode data-set bytes under transfer syntax `ts` with pydicom alone -> Dataset (raises on failure)."""
    from pydicom import config as pconfig
    from pydicom.filereader import read_dataset
    if ts == DEFL:
        data = zlib.decompress(data, -zlib.MAX_WBITS)
    fp = io.BytesIO(data)
    # strict: pydicom otherwise silently switches between implicit and explicit VR when the bytes look like the
    # other one ("Expected explicit VR, but found implicit VR - using implicit VR for reading")
    old_mode = pconfig.settings.reading_validation_mode
    pconfig.settings.reading_validation_mode = pconfig.RAISE
    try:
        ds = read_dataset(fp, is_implicit_VR=(ts == IMPL), is_little_endian=ts_little(ts))
        if fp.tell() != len(data):
            raise ValueError("trailing bytes: %d of %d consumed" % (fp.tell(), len(data)))
        for elem in ds.iterall():     # force the conversion of every raw element
            elem.value
    finally:
        pconfig.settings.reading_validation_mode = old_mode
    return ds


def build_store_dataset(spec, case_no, tmpdir):
    """spec: {"k","sop","enc","how","pix","fix","compress"} -> dict(obj=<what is given to the API>, expect=...,
    meta_ts, orig, encaps, exact_required, inconsistent) or raises BuildError."""
    import pydicom
    from pydicom.dataset import FileMetaDataset
    enc = spec["enc"]
    ts = TS[enc]
    inst = inst_uid(case_no, spec["k"])
    pix = None
    if spec.get("pix", True):
        pix = "encaps" if ts_compressed(ts) else "native"
    ds = base_dataset(spec["sop"], inst, pix)
    ds.file_meta = FileMetaDataset()
    ds.file_meta.TransferSyntaxUID = ts
    ds.file_meta.MediaStorageSOPClassUID = spec["sop"]
    ds.file_meta.MediaStorageSOPInstanceUID = inst
    how = spec["how"]
    info = {"inst": inst, "how": how, "exact_required": False, "inconsistent": False}
    if how == "mem":
        obj = ds
        expect_ds = copy.deepcopy(ds)
    else:
        path = os.path.join(tmpdir, "i%d.dcm" % spec["k"])
        ds.save_as(path, enforce_file_format=True)
        expect_ds = pydicom.dcmread(path)
        if how == "read":
            obj = pydicom.dcmread(path)
            if spec.get("compress"):
                obj.compress(pydicom.uid.RLELossless)
                expect_ds = copy.deepcopy(obj)
            if spec.get("fix"):
                obj.file_meta.TransferSyntaxUID = TS[spec["fix"]]
                expect_ds = copy.deepcopy(obj)
        else:
            obj = path
            info["exact_required"] = (how == "chunked")
    probe = obj if how in ("mem", "read") else expect_ds
    info["inst"] = str(probe.SOPInstanceUID)       # Dataset.compress() assigns a new SOP Instance UID
    info["meta_ts"] = str(probe.file_meta.TransferSyntaxUID)
    oe = tuple(probe.original_encoding)
    info["orig"] = None if None in oe else [bool(oe[0]), bool(oe[1])]
    info["encaps"] = bool("PixelData" in probe and probe["PixelData"].is_undefined_length)
    if info["orig"] is not None:
        mt = info["meta_ts"]
        info["inconsistent"] = [mt == IMPL, ts_little(mt)] != info["orig"]
    info["expect"] = canon(expect_ds)
    info["obj"] = obj
    return info


# ----------------------------------------------------------------------------------------------- case generation

CTX_TS_POOL = ("impl", "expl", "be", "defl", "jpeg", "rle")
FOCI = ("store", "get", "store-enc", "move", "find", "nserv", "ups", "acceptor-sends", "get-roles", "unrestricted",
        "store-odd", "mixed")


def _pick_ts_list(rng, n, storage):
    pool = list(CTX_TS_POOL if storage else ("impl", "expl", "be", "defl"))
    rng.shuffle(pool)
    return pool[:n]


def gen_assoc_case(seed, idx):
    rng = rng_for(seed, PID, "assoc", idx)
    focus = FOCI[idx % len(FOCI)]
    case = {"kind": "assoc", "no": idx, "focus": focus, "unrestricted": focus == "unrestricted",
            "max_pdu": rng.choice([0, 70, 256, 16382, 16382]), "rq": [], "ac": [], "ops": [], "dest": None}
    abstracts = []

    def add(a):
        if a not in abstracts:
            abstracts.append(a)

    if rng.random() < 0.85:
        add(VERIF)
    for a in rng.sample(STORAGE, rng.choice([1, 2, 2, 3])):
        add(a)
    if focus in ("get", "get-roles", "mixed", "unrestricted"):
        add(rng.choice([P_GET, S_GET]))
    if focus in ("move", "mixed"):
        add(rng.choice([P_MOVE, S_MOVE]))
    if focus in ("find", "mixed", "store"):
        add(rng.choice([P_FIND, S_FIND]))
    if focus in ("nserv", "acceptor-sends", "mixed"):
        for a in rng.sample([PRINT_META, MPPS, COMMIT, FILM_SESSION], rng.choice([2, 3])):
            add(a)
        add(COMMIT)
    if focus == "ups":
        for a in rng.sample([UPS_PUSH, UPS_PULL, UPS_WATCH, UPS_EVENT, UPS_QUERY], rng.choice([1, 2, 3])):
            add(a)
    if focus == "unrestricted":
        add(PRIV_STORAGE)

    for a in abstracts:
        storage = a in STORAGE or a == PRIV_STORAGE
        # ---- requestor
        if storage:
            if focus in ("get", "get-roles", "acceptor-sends", "unrestricted"):
                prop = rng.choice([None, (1, 1), (1, 1), (0, 1), (0, 1), (1, 0)])
            else:
                prop = rng.choice([None, None, (1, 1), (1, 0), (0, 1), (0, 1)])
        elif a in (COMMIT, MPPS) and rng.random() < 0.4:
            prop = rng.choice([(1, 1), (0, 1)])
        else:
            prop = None if rng.random() < 0.85 else rng.choice([(1, 1), (1, 0), (0, 1)])
        nctx = rng.choice([1, 2, 2, 3]) if storage else rng.choice([1, 1, 2])
        used = []
        for _ in range(nctx):
            tsl = _pick_ts_list(rng, rng.choice([1, 1, 2]), storage)
            if tsl in used:
                continue
            used.append(tsl)
            case["rq"].append({"abs": a, "ts": tsl})
        if prop is not None:
            case.setdefault("roles", {})[a] = list(prop)
        # ---- acceptor
        if rng.random() < 0.12 and a != VERIF:
            continue                                  # unsupported abstract syntax -> result 3
        n = rng.choice([1, 2, 3, 4, 6]) if storage else rng.choice([1, 2, 4])
        sup = {"abs": a, "ts": _pick_ts_list(rng, n, storage), "scu": None, "scp": None}
        if rng.random() < 0.75:
            # make it likely that the requested syntaxes are supported
            for tsl in used:
                for t in tsl:
                    if t not in sup["ts"] and rng.random() < 0.8:
                        sup["ts"].insert(rng.randrange(len(sup["ts"]) + 1), t)
        if prop is not None and rng.random() < 0.85:
            rep = rng.choice([(True, True), (True, True), (True, False), (False, True), (False, True), (False, False)])
            sup["scu"], sup["scp"] = rep
        case["ac"].append(sup)

    if not case["ac"]:            # an AE without supported contexts cannot be started
        case["ac"].append({"abs": abstracts[0], "ts": ["impl", "expl"], "scu": None, "scp": None})

    # ---- operations
    ops = case["ops"]
    k = [0]

    def ds_spec(sop, enc=None, how=None, **kw):
        k[0] += 1
        enc = enc or rng.choice(CTX_TS_POOL)
        how = how or rng.choice(["mem", "mem", "read", "read", "path", "chunked"])
        d = {"k": k[0], "sop": sop, "enc": enc, "how": how, "pix": rng.random() < 0.8 or ts_compressed(TS[enc])}
        d.update(kw)
        return d

    proposed_storage = [a for a in abstracts if a in STORAGE or a == PRIV_STORAGE]

    def store(side="rq", **kw):
        sop = kw.pop("sop", None) or rng.choice(proposed_storage)
        if "enc" not in kw and rng.random() < 0.6:
            req_ts = [t for e in case["rq"] if e["abs"] == sop for t in e["ts"]]
            if req_ts:
                kw["enc"] = rng.choice(req_ts)
        ops.append({"op": "store", "side": side, "ds": ds_spec(sop, **kw)})

    def odd_store(side="rq"):
        sop = rng.choice(proposed_storage)
        v = rng.choice(["compress", "compress", "fix-impl-read", "fix-be-read", "fix-expl-read"])
        if v == "compress":
            ops.append({"op": "store", "side": side,
                        "ds": ds_spec(sop, enc=rng.choice(["impl", "expl"]), how="read", pix=True, compress=True)})
        elif v == "fix-impl-read":      # actual implicit LE, meta says something else
            ops.append({"op": "store", "side": side, "ds": ds_spec(sop, enc="impl", how="read",
                                                                     fix=rng.choice(["expl", "be", "defl"]))})
        elif v == "fix-be-read":        # actual explicit BE, meta says little endian
            ops.append({"op": "store", "side": side, "ds": ds_spec(sop, enc="be", how="read",
                                                                     fix=rng.choice(["expl", "impl", "defl"]))})
        else:                           # actual explicit LE, meta says implicit / BE -> AttributeError expected
            ops.append({"op": "store", "side": side, "ds": ds_spec(sop, enc="expl", how="read",
                                                                     fix=rng.choice(["impl", "be"]))})

    def subs(n):
        out = []
        for _ in range(n):
            sop = rng.choice(proposed_storage + ([US_] if rng.random() < 0.1 else []))
            out.append(ds_spec(sop, how=rng.choice(["mem", "read"])))
        return out

    def nserv(side="rq"):
        cands = [a for a in abstracts if a in (PRINT_META, MPPS, COMMIT, FILM_SESSION)]
        if not cands or rng.random() < 0.1:
            cands = [PRINT_META, MPPS, COMMIT, FILM_SESSION]
        a = rng.choice(cands)
        # only the DIMSE-N services the SOP class's service class defines (PS3.4 H / F / J)
        choice = rng.choice({MPPS: ["n_create", "n_set", "n_get", "n_event_report"],
                             COMMIT: ["n_action", "n_action", "n_event_report"]}.get(
            a, ["n_get", "n_set", "n_action", "n_create", "n_delete", "n_delete", "n_event_report"]))
        op = {"op": choice, "side": side, "class": a, "meta": None, "inst": INST_ROOT + "77.%d" % len(ops),
              "with_ds": rng.random() < 0.8}
        if a == PRINT_META:
            op["class"] = rng.choice([FILM_SESSION, PRINTER])
            op["meta"] = PRINT_META
            if op["class"] == PRINTER:
                op["inst"] = PRINTER_INST
        elif a == COMMIT:
            op["inst"] = COMMIT_INST
        ops.append(op)

    def ups_op():
        choice = rng.choice(["n_get", "n_set", "n_action", "n_create", "find", "n_event_report"])
        cls = rng.choice([UPS_PUSH, UPS_PUSH, UPS_PUSH, UPS_PULL, UPS_WATCH, UPS_EVENT, UPS_QUERY])
        if choice == "find":
            ops.append({"op": "find", "side": "rq", "model": cls, "n": rng.choice([0, 1, 2])})
        else:
            ops.append({"op": choice, "side": "rq" if choice != "n_event_report" or rng.random() < 0.5 else "ac",
                        "class": cls, "meta": None, "inst": INST_ROOT + "78.%d" % len(ops), "with_ds": True})

    def get_op():
        models = [a for a in abstracts if a in (P_GET, S_GET)] or [P_GET]
        ops.append({"op": "get", "side": "rq", "model": rng.choice(models), "subs": subs(rng.choice([1, 2, 3, 4]))})

    def move_op():
        models = [a for a in abstracts if a in (P_MOVE, S_MOVE)] or [P_MOVE]
        dest = rng.choice(["known", "known", "known", "unknown"])
        ops.append({"op": "move", "side": "rq", "model": rng.choice(models), "dest": dest,
                    "subs": subs(rng.choice([1, 2, 3]))})
        if dest == "known" and case["dest"] is None:
            dsup = []
            for a in proposed_storage:
                if rng.random() < 0.85:
                    dsup.append({"abs": a, "ts": _pick_ts_list(rng, rng.choice([1, 2, 3, 6]), True)})
            dreq = []
            for a in proposed_storage + ([US_] if rng.random() < 0.2 else []):
                for _ in range(rng.choice([1, 2, 3])):
                    dreq.append({"abs": a, "ts": _pick_ts_list(rng, rng.choice([1, 1, 2]), True)})
            case["dest"] = {"supported": dsup, "requested": dreq}

    def find_op():
        models = [a for a in abstracts if a in (P_FIND, S_FIND)] or [P_FIND]
        ops.append({"op": "find", "side": "rq", "model": rng.choice(models + ([S_FIND] if rng.random() < 0.1 else [])),
                    "n": rng.choice([0, 1, 2, 3])})

    def cancel_op():
        if rng.random() < 0.6:
            ops.append({"op": "cancel", "side": "rq", "by": "model",
                        "model": rng.choice([a for a in abstracts if a not in STORAGE] or [P_FIND])})
        else:       # the API also takes a bare context id
            ops.append({"op": "cancel", "side": "rq", "by": "ctx",
                        "context_id": rng.choice([1, 3, 5, 7, 9, 11, 2 * len(case["rq"]) + 1, 99, 201])})

    def echo(side="rq"):
        ops.append({"op": "echo", "side": side})

    n_ops = rng.choice([6, 8, 10, 12, 14])
    plan = {
        "store": [store] * 6 + [find_op, echo],
        "store-enc": [store] * 8,
        "store-odd": [odd_store] * 4 + [store] * 3,
        "get": [get_op] * 3 + [store] * 2 + [echo],
        "get-roles": [get_op] * 4 + [lambda: store("ac")] * 2 + [store],
        "move": [move_op] * 3 + [store, echo],
        "find": [find_op] * 4 + [cancel_op, store, echo],
        "nserv": [nserv] * 7 + [echo, store],
        "ups": [ups_op] * 8,
        "acceptor-sends": [lambda: store("ac")] * 4 + [lambda: nserv("ac")] * 2 + [lambda: echo("ac"), store, nserv,
                                                                                    lambda: odd_store("ac")],
        "unrestricted": [lambda: store(sop=PRIV_STORAGE)] * 2 + [store] * 2 + [get_op] * 2 + [echo],
        "mixed": [store, store, get_op, move_op, find_op, nserv, echo, cancel_op, odd_store, lambda: store("ac"),
                  lambda: nserv("ac")],
    }[focus]
    if focus == "store-enc":
        # every dataset syntax x every way of giving it, against this association's context set
        combos = [(e, h) for e in CTX_TS_POOL for h in ("mem", "read", "path", "chunked")]
        rng.shuffle(combos)
        for e, h in combos[:n_ops + 4]:
            store(enc=e, how=h)
    else:
        for i in range(n_ops):
            rng.choice(plan)()
    if rng.random() < 0.25:
        store(sop=US_)                    # never proposed: must be refused
    for i, op in enumerate(ops):
        op["msg_id"] = 20 * (i + 1)
    return case


def gen_direct_case(seed, block, count):
    return {"kind": "direct", "seed": seed, "block": block, "count": count}


def pinned_cases():
    """Fixed minimal witnesses of the genuine defects found so far: replayed first in every run, so that a
    KNOWN-FINDING line is deterministic and disappears by itself once the defect is repaired."""
    def case(no, focus, rq, ac, ops, **kw):
        c = {"kind": "assoc", "no": no, "focus": focus, "unrestricted": False, "max_pdu": 16382, "rq": rq, "ac": ac,
             "ops": ops, "dest": None}
        c.update(kw)
        for i, op in enumerate(c["ops"]):
            op["msg_id"] = 20 * (i + 1)
        return c

    def sup(a, ts):
        return {"abs": a, "ts": ts, "scu": None, "scp": None}
    return [
        # dcmread(implicit LE file).compress(RLELossless) -> sent on the implicit LE context although RLE was accepted
        case(900001, "pinned-compress-implicit", [{"abs": SC, "ts": ["impl"]}, {"abs": SC, "ts": ["rle"]}],
             [sup(SC, ["impl", "rle"])],
             [{"op": "store", "side": "rq", "ds": {"k": 1, "sop": SC, "enc": "impl", "how": "read", "pix": True,
                                                     "compress": True}}]),
        # UNRESTRICTED_STORAGE_SERVICE acceptor sends a C-GET sub-operation without holding the SCU role
        case(900002, "pinned-unrestricted-get", [{"abs": P_GET, "ts": ["impl"]}, {"abs": CT, "ts": ["impl"]}],
             [sup(P_GET, ["impl"])],
             [{"op": "get", "side": "rq", "model": P_GET,
               "subs": [{"k": 1, "sop": CT, "enc": "impl", "how": "mem", "pix": True}]}], unrestricted=True),
        # send_c_cancel(msg_id, context_id=<id that was never accepted>)
        #   (99: never proposed; 5: accepted, but the requestor holds only the SCP role on it)
        case(900003, "pinned-cancel-context-id",
             [{"abs": VERIF, "ts": ["impl"]}, {"abs": P_FIND, "ts": ["impl"]}, {"abs": CT, "ts": ["impl"]}],
             [sup(VERIF, ["impl"]), sup(P_FIND, ["impl"]), {"abs": CT, "ts": ["impl"], "scu": False, "scp": True}],
             [{"op": "cancel", "side": "rq", "by": "ctx", "context_id": 99},
              {"op": "cancel", "side": "rq", "by": "ctx", "context_id": 5}, {"op": "echo", "side": "rq"}],
             roles={CT: [0, 1]}),
    ]


def gen_cases(tier, seed):
    n_assoc, n_blocks, per = (192, 16, 1500) if tier == "quick" else (3600, 64, 6000)
    cases = pinned_cases()
    cases += [gen_assoc_case(seed, i) for i in range(n_assoc)]
    cases += [gen_direct_case(seed, b, per) for b in range(n_blocks)]
    for rep in range(1 if tier == "quick" else 10):
        for bad in ("rejected", "never-proposed", "even", "zero"):
            for sop in ("rejected-class", "accepted-class"):
                cases.append({"kind": "peer-subop", "bad_ctx": bad, "sop": sop, "rep": rep})
    # interleave so that every worker gets both kinds
    return cases


# ----------------------------------------------------------------------------------------------- direct monitor (2)

D_ABS = (CT, MR, SC, VERIF, UPS_PUSH, UPS_PULL, UPS_WATCH, UPS_EVENT, UPS_QUERY)
D_TS = (IMPL, EXPL, BE, DEFL, JPEG, RLE, J2K)


def run_direct(case):
    from pynetdicom import AE
    from pynetdicom.association import Association
    from pynetdicom.presentation import PresentationContext
    rng = rng_for(case["seed"], PID, "direct", case["block"])
    ae = AE("C18-DIRECT")
    assoc = Association(ae, "requestor")
    assoc._c18_direct = True
    counters = {"gvc_direct_evals": 0, "gvc_direct_raises": 0, "gvc_direct_exact": 0, "gvc_direct_converted": 0,
                "gvc_direct_any": 0, "gvc_direct_ups": 0, "gvc_direct_with_context_id": 0}
    violations = {}
    hashes = set()
    sample = None
    for n in range(case["count"]):
        focus_abs = rng.sample(D_ABS, rng.choice([1, 2, 3]))
        accepted = []
        for i in range(rng.choice([1, 2, 3, 3, 4, 5, 6, 8])):
            a = rng.choice(focus_abs) if rng.random() < 0.85 else rng.choice(D_ABS)
            scu, scp = rng.choice([(True, False), (True, False), (False, True), (True, True), (False, False)])
            accepted.append({"id": 2 * i + 1, "abs": a, "ts": rng.choice(D_TS), "scu": scu, "scp": scp})
        ab = rng.choice(focus_abs) if rng.random() < 0.9 else rng.choice(D_ABS)
        tr = rng.choice(D_TS + ("",)) if rng.random() < 0.85 else accepted[0]["ts"]
        role = rng.choice([None, "scu", "scu", "scp"])
        r = rng.random()
        if r < 0.6:
            context_id = None
        elif r < 0.9:
            context_id = rng.choice(accepted)["id"]
        else:
            context_id = rng.choice([99, 2 * len(accepted) + 1, 255])
        allow = rng.random() < 0.65
        if tr == "" and not allow:
            allow = True
        if ab == UPS_PUSH and context_id is not None:
            context_id = None
        table = {}
        for c in accepted:
            cx = PresentationContext()
            cx.context_id = c["id"]
            cx.abstract_syntax = c["abs"]
            cx.transfer_syntax = [c["ts"]]
            cx.result = 0
            cx._as_scu = c["scu"]
            cx._as_scp = c["scp"]
            table[c["id"]] = cx
        assoc._accepted_cx = table
        try:
            cx = assoc._get_valid_context(ab, tr, role, context_id, allow)
            # judge the returned OBJECT by its own content (not by id alone)
            outcome = ("ok", cx.context_id)
            src = table.get(cx.context_id)
            if src is not cx:
                outcome = ("ok", -1)
        except BaseException as exc:
            outcome = ("raise", type(exc).__name__)
        key, how = classify_gvc(accepted, ab, tr, role, context_id, allow, outcome)
        counters["gvc_direct_evals"] += 1
        if outcome[0] == "raise":
            counters["gvc_direct_raises"] += 1
        elif how == "exact":
            counters["gvc_direct_exact"] += 1
        elif how == "convertible":
            counters["gvc_direct_converted"] += 1
        elif how == "any":
            counters["gvc_direct_any"] += 1
        if ab == UPS_PUSH and outcome[0] == "ok" and not any(c["abs"] == UPS_PUSH for c in accepted):
            counters["gvc_direct_ups"] += 1
        if context_id is not None:
            counters["gvc_direct_with_context_id"] += 1
        if len(accepted) >= 2:
            hashes.add(sha([accepted, ab, tr, role, context_id, allow]))
        rec = {"accepted": accepted, "ab": ab, "tr": tr, "role": role, "context_id": context_id,
               "allow_conversion": allow, "outcome": list(outcome), "reference_allows": how}
        if sample is None and len(accepted) >= 3 and how == "convertible":
            sample = rec
        if key:
            violations.setdefault("get_valid_context|" + key, "direct call #%d: %r" % (n, rec))
    return {"key": "direct-%d" % case["block"], "nontrivial": True, "sample": sample,
            "violations": [{"key": k, "detail": d} for k, d in violations.items()],
            "counters": counters, "inconclusive": None, "hashes": sorted(hashes)}


# ----------------------------------------------------------------------------------------------- wire analysis

def _decode_all(pdus):
    out = []
    for p in pdus:
        try:
            out.append(ps38.decode(p))
        except Exception:
            out.append({"type": "undecodable"})
    return out


def negotiated_table(rq, ac):
    """{id: {'abs','ts','roles': (rq_scu, rq_scp, ac_scu, ac_scp) | None}} for result-0 items + counters."""
    prop = {u["uid"]: (u["scu"], u["scp"]) for u in (rq.get("ui") or []) if u.get("k") == "role"}
    rep = {u["uid"]: (u["scu"], u["scp"]) for u in (ac.get("ui") or []) if u.get("k") == "role"}
    rq_pcs = {pc["id"]: pc for pc in rq["pcs"]}
    table = {}
    rejected = 0
    for pc in ac["pcs"]:
        if pc["result"] != 0:
            rejected += 1
            continue
        src = rq_pcs.get(pc["id"])
        if src is None:
            continue
        a = src["abs"]
        outcome = refneg.role_outcome(prop.get(a), rep.get(a))
        roles = refneg.OUTCOME_ROLES.get(outcome) if outcome else None
        table[pc["id"]] = {"abs": a, "ts": pc["ts"], "roles": roles, "proposed_ts": list(src["ts"])}
    return table, rejected


def _messages(decoded_pdus):
    pdvs = []
    for d in decoded_pdus:
        if d.get("type") == "PDATA":
            for v in d["pdvs"]:
                b = bytes.fromhex(v["data"])
                if not b:
                    continue
                pdvs.append((v["id"], b[0], b[1:]))
    return R.reassemble(pdvs)


def status_is_failure(st):
    if st is None:
        return False
    return (0x0100 <= st <= 0x02FF) or (0xA000 <= st <= 0xAFFF) or (0xC000 <= st <= 0xCFFF)


class Analysis:
    def __init__(self, case):
        self.case = case
        self.viol = {}
        self.c = {}
        self.sigs = set()
        self.notes = []

    def count(self, name, n=1):
        self.c[name] = self.c.get(name, 0) + n

    def flag(self, key, detail):
        if self.case.get("unrestricted") and key.startswith("role-missing|"):   # see C10 known finding (roles)
            key += "|unrestricted-storage"
        self.viol.setdefault(key, detail)


def analyse_socket(an, proxy, side_name, reg):
    """side_name: 'rq' | 'ac' (main association), 'mv-rq' | 'mv-ac' (C-MOVE sub-association)."""
    from vlib import taps
    tx, _ = taps.wire_pdus(proxy.sid, "tx")
    rx, _ = taps.wire_pdus(proxy.sid, "rx")
    dtx, drx = _decode_all(tx), _decode_all(rx)
    is_rq = proxy.role == "requestor"
    rq = next((d for d in (dtx if is_rq else drx) if d.get("type") == "RQ"), None)
    ac = next((d for d in (drx if is_rq else dtx) if d.get("type") == "AC"), None)
    if rq is None or ac is None:
        an.count("sockets_without_ac")
        return None
    table, rejected = negotiated_table(rq, ac)
    if is_rq:
        an.count("contexts_accepted", len(table))
        an.count("contexts_rejected", rejected)
        for cx in table.values():
            if cx["roles"] is None:
                an.count("roles_outside_table")
            elif cx["roles"][:2] == (False, True):
                an.count("role_scp_only_contexts")
            elif cx["roles"][:2] == (True, True):
                an.count("role_both_contexts")
            lab = ts_label(cx["ts"])
            an.count("ctx_ts_" + ("be" if lab == "be" else "deflated" if lab == "defl" else
                                  "compressed" if ts_compressed(cx["ts"]) else "le"))
    push_accepted = any(cx["abs"] == UPS_PUSH for cx in table.values())
    side = "requestor" if is_rq else "acceptor"
    msgs_tx = _messages(dtx)
    wire_out = []
    for m in msgs_tx:
        if not m["complete"] or not m.get("command"):
            an.count("incomplete_messages")
            continue
        cmd = m["command"]
        op = R.COMMAND_FIELDS.get(cmd.get("CommandField"), "unknown-%r" % cmd.get("CommandField"))
        is_req = op.endswith("-RQ")
        sop = cmd.get("AffectedSOPClassUID") or cmd.get("RequestedSOPClassUID")
        mid = cmd.get("MessageID") if is_req and op != "C-CANCEL-RQ" else cmd.get("MessageIDBeingRespondedTo")
        status = cmd.get("Status")
        wire_out.append({"op": op, "ctx": m["context_id"], "sop": sop, "mid": mid, "is_req": is_req,
                         "inst": cmd.get("AffectedSOPInstanceUID")})
        an.count("wire_messages_checked")
        an.count("requests_checked" if is_req else "responses_checked")
        an.count("sent_" + op)
        where = "%s %s ctx=%r sop=%s msgid=%r" % (side_name, op, m["context_id"], sop, mid)
        cx = table.get(m["context_id"])
        # ---- 1 accepted
        # a context id passed by the caller (send_c_cancel(msg_id, context_id=N)) is its own mechanism family:
        # "user-supplied-context-id|<op>|<what>" so that one finding can cover it without hiding regressions of
        # the contexts pynetdicom selects itself
        fam = ""
        if op == "C-CANCEL-RQ" and reg["user_ctx"].get((side_name, mid)) == m["context_id"]:
            fam = "user-supplied-context-id|%s|" % op
            an.count("user_supplied_context_id_sends")
        if cx is None:
            an.flag((fam + "context-not-accepted") if fam else "context-not-accepted|%s" % op,
                    "%s: context id not in the accepted set %r (AC on the wire)" % (where, sorted(table)))
            continue
        # ---- 2 abstract syntax
        if sop is not None:
            ok = sop == cx["abs"]
            req_key = (side_name, mid) if is_req else (reg["peer"][side_name], mid)
            if not ok and sop == UPS_PUSH and cx["abs"] in UPS_OTHERS and not push_accepted:
                ok = True
                an.count("ups_substitutions")
            if not ok and reg["meta"].get(req_key) == cx["abs"]:
                ok = True
                an.count("meta_substitutions")
            if not ok:
                an.flag("abstract-syntax-mismatch|%s" % op,
                        "%s: context abstract syntax %s (ts %s)" % (where, cx["abs"], ts_label(cx["ts"])))
        # ---- 3 role
        local = None
        if cx["roles"] is not None:
            local = cx["roles"][0:2] if is_rq else cx["roles"][2:4]       # (as_scu, as_scp) of the sending side
        if op.startswith("N-EVENT-REPORT"):
            an.count("n_event_report_role_not_asserted")
            if is_req and local is not None and not local[1]:
                an.count("n_event_report_rq_sent_without_scp_role")
        elif local is None:
            an.count("role_check_skipped_outside_table")
        elif is_req:
            an.count("role_checks")
            if not local[0]:
                an.flag((fam + "role-missing") if fam else "role-missing|%s|%s" % (op, side),
                        "%s: sender roles on this context (as_scu, as_scp)=%r per RQ/AC role items" % (where, local))
        elif not status_is_failure(status):
            an.count("role_checks")
            if not local[1]:
                an.flag("role-missing|%s|%s" % (op, side),
                        "%s status=%r: sender roles (as_scu, as_scp)=%r per RQ/AC role items" % (where, status, local))
        if is_req and side == "acceptor":
            an.count("acceptor_side_requests")
        if op == "C-STORE-RQ" and side_name == "ac" and reg["get_insts"].get(cmd.get("AffectedSOPInstanceUID")):
            an.count("subops_get_sent")
        if op == "C-STORE-RQ" and side_name == "mv-rq":
            an.count("subops_move_sent")
        # ---- 4 data set
        data = m["data_set_bytes"]
        sig_from = "-"
        sig_how = "-"
        if data:
            ctx_ts = cx["ts"]
            decoded = None
            try:
                decoded = decode_under(data, ctx_ts)
                an.count("datasets_decoded")
            except Exception as exc:
                decoded = None
                dec_err = repr(exc)[:200]
            expect = None
            info = None
            if op == "C-STORE-RQ":
                info = reg["store"].get(cmd.get("AffectedSOPInstanceUID"))
                expect = info["expect"] if info else None
            elif is_req:
                expect = reg["rq_ds"].get((side_name, mid))
            else:
                expect = reg["rsp_ds"].get((side_name, mid))
            actual_label = None
            if decoded is None or (expect is not None and canon(decoded) != expect):
                # find the syntax the bytes are really in
                for alt in (IMPL, EXPL, BE, DEFL):
                    if alt == ctx_ts or (alt == EXPL and ts_compressed(ctx_ts)):
                        continue
                    try:
                        alt_ds = decode_under(data, alt)
                    except Exception:
                        continue
                    if expect is None or canon(alt_ds) == expect:
                        actual_label = ts_label(alt)
                        break
                if decoded is None:
                    an.flag("dataset-not-in-context-transfer-syntax|%s->%s" % (actual_label or "undecodable",
                                                                            ts_label(ctx_ts)),
                            "%s: %d data-set bytes do not decode under the context's transfer syntax (%s); %s"
                            % (where, len(data), dec_err, data[:48].hex()))
                elif actual_label is not None:
                    an.flag("dataset-not-in-context-transfer-syntax|%s->%s" % (actual_label, ts_label(ctx_ts)),
                            "%s: data set decodes to the dataset given to the API under %s, not under the context's %s"
                            % (where, actual_label, ts_label(ctx_ts)))
                else:
                    an.flag("dataset-differs|%s" % op,
                            "%s: decoded under %s != dataset given: wire %r given %r"
                            % (where, ts_label(ctx_ts), canon(decoded)[:6], expect[:6]))
            if expect is not None:
                an.count("datasets_compared")
            # physical pixel-data rule
            if decoded is not None and "PixelData" in decoded:
                enc_px = bool(decoded["PixelData"].is_undefined_length)
                cause = "inconsistent-original-encoding" if (info and info.get("inconsistent")) else "consistent-dataset"
                if enc_px and not ts_compressed(ctx_ts):
                    an.flag("compressed-pixel-data-on-uncompressed-context|%s" % cause,
                            "%s: encapsulated PixelData sent on %s context; dataset meta ts %s original_encoding %r how=%s"
                            % (where, ts_label(ctx_ts), ts_label(info["meta_ts"]) if info else "?",
                               info.get("orig") if info else None, info.get("how") if info else None))
                if not enc_px and ts_compressed(ctx_ts):
                    an.flag("native-pixel-data-on-compressed-context|%s" % cause,
                            "%s: native PixelData sent on %s context" % (where, ts_label(ctx_ts)))
            # conversion rule
            if info is not None:
                an.count("store_rq_checked")
                froms = [info["meta_ts"]]
                if info.get("inconsistent") and info.get("orig") is not None:
                    froms.append(IMPL if info["orig"] == [True, True] else BE if info["orig"] == [False, False] else
                                 info["meta_ts"])
                sig_from = ts_label(info["meta_ts"]) + ("!" if info.get("inconsistent") else "")
                sig_how = info["how"]
                if ctx_ts in froms:
                    an.count("store_exact")
                else:
                    an.count("store_converted")
                    if not any(convertible(f, ctx_ts) for f in froms):
                        f = froms[0]
                        if ts_compressed(f) or ts_compressed(ctx_ts):
                            an.flag("converted-compressed|%s->%s" % (ts_label(f), ts_label(ctx_ts)),
                                    "%s: dataset with original syntax %s sent on a %s context" % (
                                        where, ts_label(f), ts_label(ctx_ts)))
                        else:
                            an.flag("converted-across-byte-order",
                                    "%s: dataset with original syntax %s sent on a %s context" % (
                                        where, ts_label(f), ts_label(ctx_ts)))
                    if info.get("exact_required"):
                        an.flag("converted-although-exact-match-required",
                                "%s: STORE_SEND_CHUNKED_DATASET file in %s sent on a %s context" % (
                                    where, ts_label(info["meta_ts"]), ts_label(ctx_ts)))
                if info.get("orig") is not None and ts_little(ctx_ts) != info["orig"][1] and not ts_compressed(ctx_ts):
                    an.flag("converted-across-byte-order",
                            "%s: dataset read with little_endian=%r sent on a %s context" % (
                                where, info["orig"][1], ts_label(ctx_ts)))
                if ts_compressed(info["meta_ts"]) and info["encaps"]:
                    an.count("from_ts_compressed_sent")
        an.sigs.add("|".join([side_name, op, ts_label(cx["ts"]), repr(local), sig_from, sig_how, "sent"]))
    return {"table": table, "wire_out": wire_out, "side": side}


# ----------------------------------------------------------------------------------------------- scenario runner

def _ctx_args(entry):
    return entry["abs"], [TS[t] for t in entry["ts"]]


def run_assoc(case):
    from vlib import taps, harness
    from pynetdicom import evt, build_role, build_context, _config
    an = Analysis(case)
    taps.reset()
    _tap_reset()
    tmpdir = tempfile.mkdtemp(prefix="c18_")
    no = case["no"]
    reg = {"store": {}, "rq_ds": {}, "rsp_ds": {}, "meta": {}, "user_ctx": {}, "get_insts": {},
           "peer": {"rq": "ac", "ac": "rq", "mv-rq": "mv-ac", "mv-ac": "mv-rq"}}
    cur = {}            # msg id -> op state for the handlers
    aes = []
    outcomes = []
    old_unres = _config.UNRESTRICTED_STORAGE_SERVICE
    old_chunk = _config.STORE_SEND_CHUNKED_DATASET
    inconclusive = None
    try:
        _config.UNRESTRICTED_STORAGE_SERVICE = bool(case.get("unrestricted"))

        # ---------------- handlers (same set on both sides)
        def h_zero(event):
            return 0x0000

        def h_find(event):
            st = cur.get(("find", event.request.MessageID))
            if st:
                for _ in range(st["n"]):
                    yield 0xFF00, copy.deepcopy(st["ident"])

        def h_get(event):
            st = cur.get(("get", event.request.MessageID)) or {"objs": []}
            yield len(st["objs"])
            for o in st["objs"]:
                yield 0xFF00, o

        def h_move(event):
            st = cur.get(("move", event.request.MessageID)) or {"objs": [], "dest": None}
            if st["dest"] is None:
                yield None, None
                return
            yield st["dest"]
            yield len(st["objs"])
            for o in st["objs"]:
                yield 0xFF00, o

        def h_nds(event):
            st = cur.get(("n", event.request.MessageID))
            return 0x0000, (copy.deepcopy(st["reply"]) if st and st.get("reply") is not None else None)

        def h_nget(event):
            st = cur.get(("n", event.request.MessageID))
            return 0x0000, copy.deepcopy(st["reply"]) if st and st.get("reply") is not None else small_dataset("g")

        handlers = [(evt.EVT_C_ECHO, h_zero), (evt.EVT_C_STORE, h_zero), (evt.EVT_C_FIND, h_find),
                    (evt.EVT_C_GET, h_get), (evt.EVT_C_MOVE, h_move), (evt.EVT_N_GET, h_nget),
                    (evt.EVT_N_SET, h_nds), (evt.EVT_N_ACTION, h_nds), (evt.EVT_N_CREATE, h_nds),
                    (evt.EVT_N_DELETE, h_zero), (evt.EVT_N_EVENT_REPORT, h_nds)]

        # ---------------- AEs
        tmo = (3.0, 4.0, 4.0, 3.0)
        scp = harness.make_ae("C18-SCP", timeouts=tmo, max_pdu=case["max_pdu"])
        for s in case["ac"]:
            kw = {}
            if s["scu"] is not None:
                kw = {"scu_role": s["scu"], "scp_role": s["scp"]}
            scp.add_supported_context(s["abs"], [TS[t] for t in s["ts"]], **kw)
        aes.append(scp)
        dest_addr = None
        if case.get("dest"):
            dst = harness.make_ae("C18-DEST", timeouts=tmo)
            for s in case["dest"]["supported"]:
                dst.add_supported_context(s["abs"], [TS[t] for t in s["ts"]])
            if case["dest"]["supported"]:
                aes.append(dst)
                _, dport = harness.start_server(dst, [(evt.EVT_C_STORE, h_zero)])
                dest_addr = ("127.0.0.1", dport,
                             {"contexts": [build_context(*_ctx_args(e)) for e in case["dest"]["requested"]],
                              "ae_title": "C18-DEST"})
        _, port = harness.start_server(scp, handlers)
        scu = harness.make_ae("C18-SCU", timeouts=tmo, max_pdu=case["max_pdu"])
        aes.append(scu)
        for e in case["rq"]:
            scu.add_requested_context(*_ctx_args(e))
        ext = [build_role(a, scu_role=bool(p[0]), scp_role=bool(p[1])) for a, p in (case.get("roles") or {}).items()]
        assoc = scu.associate("127.0.0.1", port, ext_neg=ext, evt_handlers=handlers, max_pdu=case["max_pdu"])
        if not assoc.is_established:
            an.count("associations_not_established")
            return _finish(an, case, reg, outcomes, None)
        an.count("associations")
        acc = None
        harness.wait_for(lambda: any(a.ae is scp and a.is_established for a in harness.acceptor_assocs()), 3.0)
        for a in harness.acceptor_assocs():
            if a.ae is scp:
                acc = a
        if acc is None:
            inconclusive = "acceptor association object not found"
            return _finish(an, case, reg, outcomes, inconclusive)

        # ---------------- operations
        for op in case["ops"]:
            side = op["side"]
            a = assoc if side == "rq" else acc
            if not (assoc.is_established and acc.is_established):
                an.count("ops_skipped_association_lost")
                last = outcomes[-1] if outcomes else {"op": "none", "side": "-"}
                an.count("assoc_lost_after_%s_%s" % (last["op"], last["side"]))
                an.notes.append("association lost after %r" % (last,))
                break
            mid = op["msg_id"]
            kind = op["op"]
            res = {"op": kind, "side": side, "msg_id": mid, "refused": None}
            try:
                call = _prepare(op, a, side, no, tmpdir, reg, cur, dest_addr, an)
            except BuildSkip as exc:
                an.count("ops_skipped_build")
                an.notes.append("build skipped: %s" % exc)
                continue
            try:
                _config.STORE_SEND_CHUNKED_DATASET = (kind == "store" and op["ds"]["how"] == "chunked")
                res["result"] = call()
            except REFUSALS as exc:
                res["refused"] = type(exc).__name__
                res["why"] = str(exc)[:160]
            except Exception as exc:      # anything else the API raises before/after sending: recorded, not judged
                res["error"] = "%s: %s" % (type(exc).__name__, str(exc)[:160])
                an.count("api_other_exception")
            finally:
                _config.STORE_SEND_CHUNKED_DATASET = False
            outcomes.append(res)
        # ---------------- end
        if assoc.is_established:
            assoc.release()
        else:
            an.count("association_lost_before_release")
            last = outcomes[-1] if outcomes else {"op": "none", "side": "-"}
            an.count("assoc_lost_finally_after_%s_%s" % (last["op"], last["side"]))
        taps.wait_quiet(4.0)
        return _finish(an, case, reg, outcomes, inconclusive)
    finally:
        _config.UNRESTRICTED_STORAGE_SERVICE = old_unres
        _config.STORE_SEND_CHUNKED_DATASET = old_chunk
        for ae in aes:
            try:
                harness.stop_ae(ae, 4.0)
            except Exception:
                pass
        shutil.rmtree(tmpdir, ignore_errors=True)


class BuildSkip(Exception):
    pass


def _prepare(op, a, side, no, tmpdir, reg, cur, dest_addr, an):
    """Build the inputs of one operation, register what the oracle needs, return a zero-arg callable."""
    kind = op["op"]
    mid = op["msg_id"]
    if kind == "echo":
        return lambda: a.send_c_echo(msg_id=mid)
    if kind == "store":
        try:
            info = build_store_dataset(op["ds"], no, tmpdir)
        except Exception as exc:
            raise BuildSkip("%s: %r" % (op["ds"], exc))
        reg["store"][info["inst"]] = info
        an.count("ds_enc_" + op["ds"]["enc"])
        an.count("ds_how_" + op["ds"]["how"])
        if info["inconsistent"]:
            an.count("ds_inconsistent")
        return lambda: a.send_c_store(info["obj"], msg_id=mid)
    if kind in ("get", "move"):
        objs = []
        for spec in op["subs"]:
            try:
                info = build_store_dataset(spec, no, tmpdir)
            except Exception as exc:
                raise BuildSkip("%s: %r" % (spec, exc))
            reg["store"][info["inst"]] = info
            if kind == "get":
                reg["get_insts"][info["inst"]] = True
            objs.append(info["obj"])
        ident = identifier(str(mid))
        reg["rq_ds"][(side, mid)] = canon(ident)
        if kind == "get":
            cur[("get", mid)] = {"objs": objs}
            return lambda: list(_bounded(a.send_c_get(ident, op["model"], msg_id=mid)))
        cur[("move", mid)] = {"objs": objs, "dest": dest_addr if op["dest"] == "known" else None}
        return lambda: list(_bounded(a.send_c_move(ident, "C18-DEST", op["model"], msg_id=mid)))
    if kind == "find":
        ident = identifier(str(mid))
        reg["rq_ds"][(side, mid)] = canon(ident)
        reply = identifier("r%d" % mid)
        cur[("find", mid)] = {"n": op["n"], "ident": reply}
        reg["rsp_ds"][(reg["peer"][side], mid)] = canon(reply)
        return lambda: list(_bounded(a.send_c_find(ident, op["model"], msg_id=mid)))
    if kind == "cancel":
        if op["by"] == "model":
            return lambda: a.send_c_cancel(mid, query_model=op["model"])
        reg["user_ctx"][(side, mid)] = op["context_id"]
        return lambda: a.send_c_cancel(mid, context_id=op["context_id"])
    # ---- DIMSE-N
    cls, meta, inst = op["class"], op.get("meta"), op["inst"]
    if meta:
        reg["meta"][(side, mid)] = meta
    ds = small_dataset(str(mid)) if op.get("with_ds") else None
    reply = small_dataset("r%d" % mid)
    cur[("n", mid)] = {"reply": reply if kind != "n_delete" else None}
    if kind != "n_delete":
        reg["rsp_ds"][(reg["peer"][side], mid)] = canon(reply)
    if kind == "n_get":
        return lambda: a.send_n_get([0x00100010, 0x00100020], cls, inst, msg_id=mid, meta_uid=meta)
    if kind == "n_delete":
        return lambda: a.send_n_delete(cls, inst, msg_id=mid, meta_uid=meta)
    if kind == "n_set":
        ds = ds or small_dataset(str(mid))
        reg["rq_ds"][(side, mid)] = canon(ds)
        return lambda: a.send_n_set(ds, cls, inst, msg_id=mid, meta_uid=meta)
    if ds is not None:
        reg["rq_ds"][(side, mid)] = canon(ds)
    if kind == "n_action":
        return lambda: a.send_n_action(ds, 1, cls, inst, msg_id=mid, meta_uid=meta)
    if kind == "n_create":
        return lambda: a.send_n_create(ds, cls, inst, msg_id=mid, meta_uid=meta)
    if kind == "n_event_report":
        return lambda: a.send_n_event_report(ds, 1, cls, inst, msg_id=mid, meta_uid=meta)
    raise BuildSkip("unknown op %r" % kind)


def _bounded(gen, limit=64):
    for i, x in enumerate(gen):
        yield x
        if i >= limit:
            break


OP_RQ_NAME = {"echo": "C-ECHO-RQ", "store": "C-STORE-RQ", "find": "C-FIND-RQ", "get": "C-GET-RQ",
              "move": "C-MOVE-RQ", "cancel": "C-CANCEL-RQ", "n_get": "N-GET-RQ", "n_set": "N-SET-RQ",
              "n_action": "N-ACTION-RQ", "n_create": "N-CREATE-RQ", "n_delete": "N-DELETE-RQ",
              "n_event_report": "N-EVENT-REPORT-RQ"}


def _finish(an, case, reg, outcomes, inconclusive):
    from vlib import taps
    per_side = {}
    assoc_side = {}
    mv = 0
    main_seen = {"requestor": False, "acceptor": False}
    # which proxies belong to the main association: AE titles
    for proxy in list(taps.State.socks):
        a = proxy.assoc
        title = getattr(getattr(a, "ae", None), "ae_title", "")
        if proxy.role == "requestor":
            name = "rq" if title == "C18-SCU" else "mv-rq"
        else:
            name = "ac" if title == "C18-SCP" else "mv-ac"
        res = analyse_socket(an, proxy, name, reg)
        if res is not None:
            per_side.setdefault(name, []).append(res)
            assoc_side[id(a)] = (name, res)
    # ---- refused operations leave nothing on the wire
    for o in outcomes:
        name = OP_RQ_NAME[o["op"]]
        if o["refused"]:
            an.count("refused_ops")
            an.count("refused_" + o["refused"])
            an.sigs.add("|".join([o["side"], name, "refused", o["refused"]]))
            hit = [w for r in per_side.get(o["side"], []) for w in r["wire_out"]
                   if w["op"] == name and w["mid"] == o["msg_id"]]
            if hit:
                an.flag("refused-but-sent|%s" % name,
                        "%s refused with %s (%s) but the wire carries %r" % (name, o["refused"], o.get("why"), hit[0]))
            else:
                an.count("refused_nothing_on_wire")
        elif "error" not in o:
            an.count("ops_performed")
    # ---- send_msg tap vs wire, per association, in order
    with _LOCK:
        sends = list(_TAP["sends"])
        gvc = list(_TAP["gvc"])
    by_assoc = {}
    for s in sends:
        by_assoc.setdefault(s["assoc"], []).append(s)
    for aid, lst in by_assoc.items():
        if aid not in assoc_side:
            continue
        name, res = assoc_side[aid]
        wire = res["wire_out"]
        lst = [x for x in lst if not x.get("failed")]
        an.count("tap_sends", len(lst))
        if len(wire) > len(lst):
            an.flag("tap-wire-mismatch|more-messages-than-send_msg-calls",
                    "%s: %d messages on the wire, %d send_msg calls" % (name, len(wire), len(lst)))
        for s, w in zip(lst, wire):
            if "tap_error" in s:
                continue
            tname = s["type"].replace("_", "-") + ("-RQ" if s["rq"] else "-RSP")
            if tname != w["op"]:
                an.flag("tap-wire-mismatch|message-type", "%s: send_msg(%s) produced %s" % (name, tname, w["op"]))
                break
            if s["ctx"] != w["ctx"]:
                an.flag("tap-wire-mismatch|context-id",
                        "%s %s: send_msg context id %r, wire %r" % (name, tname, s["ctx"], w["ctx"]))
            if s["sop"] != w["sop"] and not (s["sop"] is None or w["sop"] is None):
                an.flag("tap-wire-mismatch|sop-class",
                        "%s %s: send_msg SOP class %r, wire %r" % (name, tname, s["sop"], w["sop"]))
    # ---- live _get_valid_context calls against the reference
    for g in gvc:
        if g["accepted"] is None or g["outcome"] is None:
            continue
        if g["tr"] == "" and not g["allow_conversion"]:
            continue
        if g["ab"] == UPS_PUSH and g["context_id"] is not None:
            continue
        an.count("gvc_live_calls")
        key, how = classify_gvc(g["accepted"], g["ab"], g["tr"], g["role"], g["context_id"], g["allow_conversion"],
                                tuple(g["outcome"]))
        if g["outcome"][0] == "raise":
            an.count("gvc_live_raises")
        if key:
            an.flag("get_valid_context|" + key, "live call: %r" % {k: v for k, v in g.items() if k != "assoc"})
    if taps.State.excs:
        an.count("escaped_exceptions", len(taps.State.excs))
        an.notes.append("escaped: %r" % taps.State.excs[:2])
    sample = {"focus": case["focus"], "accepted": None, "operations": [
        {k: v for k, v in o.items() if k in ("op", "side", "msg_id", "refused", "why", "error")} for o in outcomes][:14],
        "notes": an.notes[:4]}
    main = per_side.get("rq")
    if main:
        sample["accepted"] = {str(i): [cx["abs"], ts_label(cx["ts"]), cx["roles"]] for i, cx in main[0]["table"].items()}
        sample["wire_rq_side"] = [[w["op"], w["ctx"], w["mid"]] for w in main[0]["wire_out"]][:20]
    acs = per_side.get("ac")
    if acs:
        sample["wire_ac_side"] = [[w["op"], w["ctx"], w["mid"]] for w in acs[0]["wire_out"]][:20]
    return {"key": sha({k: v for k, v in case.items()}), "nontrivial": bool(an.c.get("wire_messages_checked") or
                                                                            an.c.get("refused_ops")),
            "sample": sample, "violations": [{"key": k, "detail": d} for k, d in an.viol.items()],
            "counters": an.c, "inconclusive": inconclusive, "sigs": sorted(an.sigs)}


def run_peer_subop(case):
    """A real requestor runs C-GET against a scripted acceptor that sends its C-STORE sub-operation on a presentation context id
    that was NOT accepted (rejected, never proposed, even, 0).  Whatever pynetdicom then sends must still travel on accepted contexts
    only (it may abort instead); judged from the bytes the scripted acceptor received."""
    from pydicom.dataset import Dataset
    from pynetdicom import build_role, evt
    from vlib import cmdset, harness, peer as vpeer, ps38, taps
    taps.reset()
    GETU = "1.2.840.10008.5.1.4.1.2.1.3"
    bad = case["bad_ctx"]
    lst = vpeer.Listener()
    done = {}
    handler_calls = []

    def script():
        q = lst.accept(5.0)
        if q is None:
            return
        try:
            rq = q.recv_pdu(4.0)
            if not rq or rq.get("type") != "RQ":
                return
            # accept the C-GET context and CT (where the requestor offers the SCP role); reject MR
            results = {}
            for pc in rq["pcs"]:
                results[pc["id"]] = 0 if pc["abs"] in (GETU, CT) else 3
            ac = ps38.make_ac(rq, results=results, extra_ui=[{"k": "role", "uid": CT, "scu": 1, "scp": 1}, {"k": "role", "uid": MR, "scu": 1, "scp": 1}])
            done["accepted"] = sorted(pc["id"] for pc in ac["pcs"] if pc["result"] == 0)
            done["rejected"] = sorted(pc["id"] for pc in ac["pcs"] if pc["result"] != 0)
            q.send_pdu(ac)
            m = q.recv_dimse(4.0)
            if not m or m.get("type") != "DIMSE":
                return
            ctx_bad = {"rejected": (done["rejected"] or [99])[0], "never-proposed": 201, "even": 4, "zero": 0}[bad]
            sop = MR if case["sop"] == "rejected-class" else CT
            cmd = cmdset.make("C-STORE-RQ", AffectedSOPClassUID=sop, MessageID=77, Priority=0, AffectedSOPInstanceUID="1.2.3.4.5", CommandDataSetType=0)
            ds = b"\x08\x00\x16\x00" + len(sop.encode().ljust(len(sop) + len(sop) % 2, b"\0")).to_bytes(4, "little") + sop.encode().ljust(len(sop) + len(sop) % 2, b"\0")
            q.send_dimse(ctx_bad, cmd, ds)
            done["sent_on"] = ctx_bad
            q.drain(quiet=0.6, limit=3.0)
            done["rx"] = q.rx_all
        finally:
            q.close()
    th = threading.Thread(target=script, daemon=True)
    th.start()
    ae = harness.make_ae("C18-SCU", timeouts=(3.0, 3.0, 4.0, 3.0))
    ae.add_requested_context(GETU)
    ae.add_requested_context(CT)
    ae.add_requested_context(MR)
    roles = [build_role(CT, scu_role=True, scp_role=True), build_role(MR, scu_role=True, scp_role=True)]

    def on_store(event):
        handler_calls.append(event.context.context_id)
        return 0x0000
    viol, obs = [], {"kind": "peer-subop", "bad_ctx": bad, "sop": case["sop"]}
    try:
        assoc = ae.associate("127.0.0.1", lst.port, ext_neg=roles, evt_handlers=[(evt.EVT_C_STORE, on_store)])
        if assoc.is_established:
            ident = Dataset(); ident.QueryRetrieveLevel = "PATIENT"; ident.PatientID = "X"
            obs["get_statuses"] = [getattr(st, "Status", None) for st, _ in assoc.send_c_get(ident, GETU)]
            if assoc.is_established:
                assoc.release()
        th.join(8.0)
    finally:
        lst.close()
        harness.stop_ae(ae, 2.0)
    counters = {"peer_subop_cases": 1}
    rx = done.get("rx")
    if rx is None or "sent_on" not in done:
        return {"key": sha(["peer-subop", bad, case["sop"], "setup"]), "nontrivial": False, "sample": obs, "violations": [], "counters": counters,
                "sigs": [], "hashes": [], "inconclusive": "scripted acceptor did not get to send its sub-operation"}
    pdus, _rest = ps38.split_stream(rx)
    sent_ctx = []
    for b in pdus:
        if b[0] == 4:
            for pv in ps38.decode(b)["pdvs"]:
                sent_ctx.append(pv["id"])
    obs.update(accepted=done["accepted"], rejected=done["rejected"], subop_sent_on=done["sent_on"], pynetdicom_sent_pdvs_on=sorted(set(sent_ctx)),
               handler_calls=handler_calls)
    counters["peer_subop_pdvs_checked"] = len(sent_ctx)
    for cx in sorted(set(sent_ctx)):
        if cx not in done["accepted"]:
            viol.append({"key": "sent-on-non-accepted-context|after-subop-on-%s-context|%s" % (bad, case["sop"]),
                         "detail": "the acceptor sent a C-STORE sub-operation on context %r (accepted ids %r): pynetdicom answered with a DIMSE "
                                   "message on context %d" % (done["sent_on"], done["accepted"], cx)})
    return {"key": sha(["peer-subop", bad, case["sop"]]), "nontrivial": True, "sample": obs, "violations": viol, "counters": counters,
            "sigs": ["peer-subop|%s|%s" % (bad, case["sop"])], "hashes": [], "inconclusive": None}


def run_case(case):
    if case["kind"] == "direct":
        return run_direct(case)
    if case["kind"] == "peer-subop":
        return run_peer_subop(case)
    return run_assoc(case)


def extra_evidence(tier, results):
    sigs, hashes = set(), set()
    for r in results.values():
        sigs.update(r.get("sigs") or [])
        hashes.update(r.get("hashes") or [])
    return {"distinct_nontrivial": len(sigs) + len(hashes), "distinct_wire_signatures": len(sigs),
            "distinct_direct_inputs": len(hashes),
            "accepted_substitutions": ["UPS Push on UPS Pull/Watch/Event/Query context when no Push context accepted",
                                       "meta_uid of send_n_* (context abstract syntax = the Meta SOP Class passed)"]}
