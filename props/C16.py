"""C16 - every DIMSE message pynetdicom sends is completely receivable by its peer.

Oracle (per message, on the SENDER's wire log = the tx byte stream of the sending association's socket proxy, split
into PDUs by vlib.ps38 and reassembled by the independent PS3.7 reference vlib.dimse_ref.reassemble):
  * CommandDataSetType != 0x0101  <=>  data-set fragments follow on the wire (and the last one carries the last bit);
  * every message is a contiguous, well-formed fragment sequence (no fragment of another message inside it);
  * the RECEIVER completes the message and hands it to its service layer: requests sent by a real requestor to a real
    acceptor make the bound handler run (or make the service class answer), responses are returned / yielded by the
    requestor's send_* call, and the association survives (a following C-ECHO succeeds).

Scenario kinds (all use real sockets on loopback):
  pair        real pynetdicom requestor  <-> real pynetdicom acceptor   (every public send_c_* / send_n_* call with the
              data-set parameter absent / empty / non-empty; every SCP response path with handlers returning / yielding
              None, Dataset() and non-empty data sets)
  peer-acc    real requestor -> scripted reference acceptor (vlib.peer)  : requests judged by the reference on both ends
  peer-req    scripted reference requestor -> real acceptor              : responses judged by the reference on both ends
  concurrent  scripted requestor advertising a small maximum length sends N-EVENT-REPORT requests while a C-FIND is
              being answered (N-EVENT-REPORT is served on its own thread); seeded yields inside send_msg's fragment loop

Violation keys (mechanism | message type | sender path):
  flag-without-dataset|<type>|<path>            CommandDataSetType announces a data set, none follows
  dataset-without-flag|<type>|<path>            data-set fragments follow a command set that announced none
  dataset-last-fragment-missing|... / command-last-fragment-missing|...     the last bit never comes
  interleaved-fragments|<type>|<path>           a fragment of another message inside an unfinished one (single-message scenarios)
  interleaved-fragments|n-event-report-during-c-find    the same, produced by two overlapping send_msg calls (concurrent scenario)
  malformed-fragment|... / malformed-command-set|...
  not-delivered|<type>|<absent|empty|non-empty> the receiver never completed it / never handed it to the service layer
  association-lost-after|<type>|<variant>       everything delivered, but the follow-up C-ECHO-RQ is no longer served
<path>: send_c_find ... send_n_delete (public API), scp (service-class response), scp-get-subop / scp-move-subop (C-STORE
sub-operation requests), scu-store-scp (requestor answering a C-GET sub-operation).
Triage / self-test helpers: tools/triage_C16.py (plain script), tools/C16_mutants.py, tools/C16_candidate_fix.diff.
"""
from __future__ import annotations

import os
import re
import shutil
import struct
import tempfile
import threading
import time
import warnings

from vlib import cmdset, dimse_ref, harness, ps38, sched, taps
from vlib.common import rng_for, sha
from vlib.peer import Listener, Peer

PID = "C16"
LEVEL = "exploration"
RULE = ("cases = (scenario kind, API / request type, request data-set variant absent|empty|non-empty, handler response variant, "
        "transfer syntax, maximum lengths of both sides, data-set size); distinct = (kind, message type, sender path, flag, "
        "data-set presence, single/multi fragment) signatures observed on the wire; non-trivial = the message under test was "
        "found on the sender's wire log and its delivery was decided")
ASSUMPTIONS = [
    "bounded progress: DIMSE timeout 3 s; a case whose only findings are delivery findings on a clean wire is re-run once "
    "(8 s timeout) before they are reported; a requestor user thread blocked for more than 25 s is abandoned (inconclusive "
    "unless the wire itself is wrong)",
    "the wire is what the socket proxy's send() accepted (loopback, no loss); the scripted peer's own rx log is judged as well",
    "requests sent by the scripted peer are conformant; hostile input is out of scope here",
    "inputs the public API rejects before sending anything (send_c_find(None), send_c_store(Dataset()), ...) are skipped and counted",
    "a data set that encodes to zero bytes may be announced (CommandDataSetType != 0x0101) and sent as ONE zero-length last "
    "fragment, or not announced and not sent: the flag must match what is sent",
    "'association stays up' = the follow-up C-ECHO-RQ is completed and answered by the receiver; whether send_c_echo() returns "
    "that answer to the caller is not judged (requestor-side reactor handshake, other property)",
    "concurrency: seeded sleep(0)/<=4 ms delays on the `self.dul.send_pdu(pdata)` line of DIMSEServiceProvider.send_msg widen "
    "the window; only schedules reached by those seeds are covered",
]
WORKERS = {"quick": 16, "thorough": 16}
QUICK_CONCURRENT = 12     # concurrency cases in the quick tier (DESIGN: thorough only); raise once the finding is fixed/recorded


def REQUIRE(tier):
    q = tier == "quick"
    req = {"messages_judged": 150 if q else 3000, "pair_cases": 60 if q else 400, "peer_acc_cases": 20 if q else 100,
           "peer_req_cases": 20 if q else 100, "req_empty_dataset_sent": 10, "rsp_empty_dataset_handlers": 10,
           "rsp_none_dataset_handlers": 10, "rsp_with_dataset_on_wire": 15, "retrieve_final_with_identifier": 5,
           "chunked_empty_file_sent": 2, "multi_fragment_messages": 30, "apis_covered": 12,
           "message_types_covered": 23}
    req.update({"multi_assoc_cases": 6 if q else 150, "multi_assoc_requests_judged": 100 if q else 3000})
    if not q or QUICK_CONCURRENT:
        req.update({"concurrent_cases": 4 if q else 40, "concurrent_send_msg_entered_together": 2 if q else 40,
                    "yield_hits": 100 if q else 2000})
    return req


MAX_INCONCLUSIVE_FRAC = 0.03

VERIF = "1.2.840.10008.1.1"
CT = "1.2.840.10008.5.1.4.1.1.2"
FIND = "1.2.840.10008.5.1.4.1.2.1.1"
MOVE = "1.2.840.10008.5.1.4.1.2.1.2"
GET = "1.2.840.10008.5.1.4.1.2.1.3"
PRINTER = "1.2.840.10008.5.1.1.16"          # Print Management: all six DIMSE-N services
TS = {"implicit": "1.2.840.10008.1.2", "explicit": "1.2.840.10008.1.2.1", "deflated": "1.2.840.10008.1.2.1.99"}
INSTANCE = "1.2.826.0.1.3680043.9.3811.16.1"
APIS = ["c_echo", "c_store", "c_find", "c_get", "c_move", "c_cancel", "n_event_report", "n_get", "n_set", "n_action",
        "n_create", "n_delete"]
RQ_OF_API = {"c_echo": "C-ECHO-RQ", "c_store": "C-STORE-RQ", "c_find": "C-FIND-RQ", "c_get": "C-GET-RQ",
             "c_move": "C-MOVE-RQ", "c_cancel": "C-CANCEL-RQ", "n_event_report": "N-EVENT-REPORT-RQ", "n_get": "N-GET-RQ",
             "n_set": "N-SET-RQ", "n_action": "N-ACTION-RQ", "n_create": "N-CREATE-RQ", "n_delete": "N-DELETE-RQ"}
CONCURRENT_KEY = "interleaved-fragments|n-event-report-during-c-find"

YP = None
_TAP = {"installed": False}


# ================================================================== worker setup / taps

class SendTap:
    """Who queued which P-DATA primitive: used only to CLASSIFY a wire problem as interleaving of two send_msg calls."""
    lock = threading.Lock()
    events = []     # (seq, kind 'enter'|'pdu'|'exit', assoc id, thread id, call serial)
    serial = 0

    @classmethod
    def reset(cls):
        with cls.lock:
            cls.events = []
            cls.serial = 0

    @classmethod
    def windows_together(cls, assoc_id):
        """Number of send_msg calls on `assoc_id` entered while another call on it had not returned (reach of the race)."""
        with cls.lock:
            ev = [e for e in cls.events if e[2] == assoc_id]
        open_calls, n = set(), 0
        for (_, kind, _, _, serial) in ev:
            if kind == "enter":
                if open_calls:
                    n += 1
                open_calls.add(serial)
            elif kind == "exit":
                open_calls.discard(serial)
        return n

    @classmethod
    def overlapping(cls, assoc_id):
        """Number of send_msg calls on `assoc_id` between whose first and last queued fragment another call queued one."""
        with cls.lock:
            pdus = [(i, serial) for i, (_, kind, aid, _, serial) in enumerate(cls.events) if aid == assoc_id and kind == "pdu"]
        span = {}
        for i, serial in pdus:
            lo, hi = span.get(serial, (i, i))
            span[serial] = (min(lo, i), max(hi, i))
        bad = 0
        for serial, (lo, hi) in span.items():
            if any(lo < i < hi and s2 != serial for i, s2 in pdus):
                bad += 1
        return bad


class RecvTap:
    """Every incoming message the receiving DIMSE provider completed and converted to a primitive (the point where it is
    handed to the service layer: message queue / N-EVENT-REPORT thread / C-CANCEL table), per association, in order."""
    lock = threading.Lock()
    events = []     # (assoc id, message name, message id)

    @classmethod
    def reset(cls):
        with cls.lock:
            cls.events = []

    @classmethod
    def of(cls, assoc):
        with cls.lock:
            return [(n, m) for (a, n, m) in cls.events if a == id(assoc)]


def _install_send_tap():
    if _TAP["installed"]:
        return
    _TAP["installed"] = True
    from pynetdicom.dimse import DIMSEServiceProvider
    from pynetdicom.dimse_messages import DIMSEMessage
    from pynetdicom.dul import DULServiceProvider
    tl = threading.local()
    orig_recv = DIMSEServiceProvider.receive_primitive
    orig_m2p = DIMSEMessage.message_to_primitive

    def receive_primitive(self, primitive):
        prev = getattr(tl, "assoc", None)
        tl.assoc = self.assoc
        try:
            return orig_recv(self, primitive)
        finally:
            tl.assoc = prev

    def message_to_primitive(self):
        prim = orig_m2p(self)
        assoc = getattr(tl, "assoc", None)
        if assoc is not None:
            try:
                name = type(self).__name__.replace("_", "-")
                if name.endswith("-RQ") and name != "C-CANCEL-RQ":
                    mid = getattr(prim, "MessageID", None)
                else:
                    mid = getattr(prim, "MessageIDBeingRespondedTo", None)
                with RecvTap.lock:
                    RecvTap.events.append((id(assoc), name, None if mid is None else int(mid)))
            except Exception as exc:
                with RecvTap.lock:
                    RecvTap.events.append((id(assoc), "tap-error", repr(exc)[:80]))
        return prim

    DIMSEServiceProvider.receive_primitive = receive_primitive
    DIMSEMessage.message_to_primitive = message_to_primitive
    orig_send_msg = DIMSEServiceProvider.send_msg
    orig_send_pdu = DULServiceProvider.send_pdu

    def send_msg(self, primitive, context_id):
        with SendTap.lock:
            SendTap.serial += 1
            serial = SendTap.serial
            SendTap.events.append((len(SendTap.events), "enter", id(self.assoc), threading.get_ident(), serial))
        prev = getattr(tl, "serial", None)
        tl.serial = serial
        try:
            return orig_send_msg(self, primitive, context_id)
        finally:
            tl.serial = prev
            with SendTap.lock:
                SendTap.events.append((len(SendTap.events), "exit", id(self.assoc), threading.get_ident(), serial))

    def send_pdu(self, primitive):
        serial = getattr(tl, "serial", None)
        if serial is not None:
            with SendTap.lock:
                SendTap.events.append((len(SendTap.events), "pdu", id(self.assoc), threading.get_ident(), serial))
        return orig_send_pdu(self, primitive)

    DIMSEServiceProvider.send_msg = send_msg
    DULServiceProvider.send_pdu = send_pdu


def setup_worker():
    global YP
    harness.quiet_logging()
    warnings.simplefilter("ignore")
    taps.install()
    _remember_originals()
    _install_send_tap()
    YP = sched.YieldPoints([(_ORIG["send_msg"], "self.dul.send_pdu(pdata)", 0),
                            # (every further occurrence of that statement, should the method have more than one sending loop)
                            (_ORIG["send_msg"], "self.dul.send_pdu(pdata)", 1), (_ORIG["send_msg"], "self.dul.send_pdu(pdata)", 2),
                            # between building the message from the primitive and encoding its fragments (multi-association cases)
                            (_ORIG["send_msg"], "dimse_msg.context_id = context_id", 0),
                            (_ORIG["send_msg"], "with self._send_lock:", 0)], seed=0, p_yield=0.9, max_delay=0.004)
    YP.install()
    YP.enabled = False


_ORIG = {}


def _remember_originals():
    from pynetdicom.dimse import DIMSEServiceProvider
    _ORIG.setdefault("send_msg", DIMSEServiceProvider.send_msg)


# ================================================================== data sets

def _el(g, e, v, ui=False):
    """One implicit VR little endian element (struct only) - the scripted peer's data sets."""
    if len(v) % 2:
        v += b"\0" if ui else b" "
    return struct.pack("<HHI", g, e, len(v)) + v


def ref_dataset(size=0):
    b = _el(8, 0x52, b"PATIENT") + _el(0x10, 0x10, b"CHECK^C16") + _el(0x10, 0x20, b"C16")
    if size:
        b += _el(0x20, 0x4000, b"R" * size)
    return b


def ref_ct_dataset(size=0):
    b = _el(8, 0x16, CT.encode(), True) + _el(8, 0x18, INSTANCE.encode(), True) + _el(0x10, 0x10, b"CHECK^C16")
    if size:
        b += _el(0x20, 0x4000, b"R" * size)
    return b


def mk_ds(kind, size=0, query=False):
    """pydicom Dataset handed to the code under test: kind in absent|none / empty / non-empty / unencodable."""
    from pydicom.dataset import Dataset
    if kind in ("absent", "none"):
        return None
    ds = Dataset()
    if kind == "empty":
        return ds
    if query:
        ds.QueryRetrieveLevel = "PATIENT"
    ds.PatientName = "CHECK^C16"
    ds.PatientID = "C16"
    if size:
        ds.ImageComments = "A" * size
    if kind == "unencodable":
        ds.add_new(0x00280010, "US", "not a number")
    return ds


def mk_ct(ts_uid, size=0, inst=INSTANCE):
    from pydicom.dataset import Dataset, FileMetaDataset
    ds = Dataset()
    ds.file_meta = FileMetaDataset()
    ds.file_meta.TransferSyntaxUID = ts_uid
    ds.file_meta.MediaStorageSOPClassUID = CT
    ds.file_meta.MediaStorageSOPInstanceUID = inst
    ds.SOPClassUID = CT
    ds.SOPInstanceUID = inst
    ds.PatientName = "CHECK^C16"
    ds.PatientID = "C16"
    if size:
        ds.ImageComments = "A" * size
    return ds


def write_dicom_file(dirname, ts_uid, empty, size=0):
    """A Part-10 file; `empty` = file meta information only (the data set after it has zero bytes)."""
    from pydicom.dataset import Dataset, FileMetaDataset
    from pydicom.filewriter import dcmwrite
    path = os.path.join(dirname, "inst.dcm")
    if empty:
        ds = Dataset()
        ds.file_meta = FileMetaDataset()
        ds.file_meta.TransferSyntaxUID = ts_uid
        ds.file_meta.MediaStorageSOPClassUID = CT
        ds.file_meta.MediaStorageSOPInstanceUID = INSTANCE
    else:
        ds = mk_ct(ts_uid, size)
    dcmwrite(path, ds, implicit_vr=(ts_uid == TS["implicit"]), little_endian=True, enforce_file_format=True)
    return path


# ================================================================== the wire judge (reference only)

def stream_pdvs(stream):
    pdus, rest = ps38.split_stream(stream)
    pdvs, notes = [], []
    for b in pdus:
        if b[0] != 4:
            continue
        for p in ps38.decode(b)["pdvs"]:
            raw = bytes.fromhex(p["data"])
            if p["id"] is None or not raw:
                notes.append("pdv-without-control-header")
                continue
            pdvs.append((p["id"], raw[0], raw[1:]))
    if rest:
        notes.append("incomplete-pdu-at-end:%d" % len(rest))
    return pdvs, notes


def sender_path(sender, name):
    if sender == "requestor":
        if name.endswith("-RQ"):
            return "send_" + name[:-3].lower().replace("-", "_")
        return "scu-store-scp" if name == "C-STORE-RSP" else "requestor-response"
    if sender == "acceptor":
        if name == "C-STORE-RQ":
            return "scp-get-subop"
        return "scp" if name.endswith("-RSP") else "acceptor-request"
    if sender == "move-scu":
        return "scp-move-subop"
    return "scp"


def judge_wire(stream, sender):
    """-> (message summaries, violations).  Everything here comes from the reference codecs."""
    pdvs, notes = stream_pdvs(stream)
    msgs = dimse_ref.reassemble(pdvs)
    viol = []
    out = []

    def add(key, detail):
        viol.append({"key": key, "detail": detail})

    for n in notes:
        add("malformed-fragment|%s|%s" % (n.split(":")[0], sender), n)
    for m in msgs:
        cmd = m["command"] or {}
        name = dimse_ref.COMMAND_FIELDS.get(cmd.get("CommandField"), "unknown")
        path = sender_path(sender, name)
        mid = cmd.get("MessageID") if name.endswith("-RQ") and name != "C-CANCEL-RQ" else cmd.get("MessageIDBeingRespondedTo")
        s = dict(name=name, mid=mid, status=cmd.get("Status"), flag=m["expects_data"], dfrags=m["data_fragments"],
                 cfrags=m["command_fragments"], dlen=(len(m["data_set_bytes"]) if m["data_set_bytes"] is not None else None),
                 complete=m["complete"], ctx=m["context_id"], path=path, first=m["first_index"], last=m["last_index"],
                 cdst=cmd.get("CommandDataSetType"), problems=list(m["problems"]))
        out.append(s)
        kinds = [p.split(":")[0] for p in m["problems"]]
        where = "%s (context %d, message id %r, CommandDataSetType %r, %d command / %d data fragments, pdv %d..%d): %s" % (
            name, m["context_id"], mid, cmd.get("CommandDataSetType"), m["command_fragments"], m["data_fragments"],
            m["first_index"], m["last_index"], "; ".join(m["problems"])[:300])
        if "interleaved-context" in kinds or "data-before-command-end" in kinds:
            add("interleaved-fragments|%s|%s" % (name, path), where)
        if m["expects_data"] is None:
            add("command-last-fragment-missing|%s|%s" % (name, path), where)
        elif m["expects_data"] and m["data_fragments"] == 0:
            add("flag-without-dataset|%s|%s" % (name, path), where)
        elif m["expects_data"] and not m["complete"]:
            add("dataset-last-fragment-missing|%s|%s" % (name, path), where)
        if "reserved-bits" in kinds:
            add("malformed-fragment|reserved-bits|%s|%s" % (name, path), where)
        if "command-set" in kinds:
            add("malformed-command-set|%s|%s" % (name, path), where)
    for p in msgs.problems:
        if p.startswith("unexpected-data"):
            mm = re.search(r"pdv (\d+): data fragment on context (\d+)", p)
            idx, ctx = (int(mm.group(1)), int(mm.group(2))) if mm else (None, None)
            prev = [s for s in out if idx is not None and s["last"] < idx and s["ctx"] == ctx]
            name = prev[-1]["name"] if prev else "unknown"
            add("dataset-without-flag|%s|%s" % (name, sender_path(sender, name)),
                "%s; previous message on that context: %r" % (p, prev[-1] if prev else None))
    return out, viol


def variant_label(v):
    return {"absent": "absent", "none": "absent", "empty": "empty"}.get(v, "non-empty")


def bump(c, k, n=1):
    c[k] = c.get(k, 0) + n


def sig_of(kind, s):
    return "%s|%s|%s|flag=%s|data=%s|%s" % (kind, s["name"], s["path"], s["flag"], "y" if s["dfrags"] else "n",
                                           "multi" if (s["cfrags"] + s["dfrags"]) > 2 else "single")


# ================================================================== recorders

class Log:
    def __init__(self):
        self.lock = threading.Lock()
        self.handler = []     # (event, message id, received data-set length)

    def h(self, ev, mid, dlen=None):
        with self.lock:
            self.handler.append((ev, mid, dlen))

    def ran(self, ev, mid):
        with self.lock:
            return any(e == ev and m == mid for (e, m, _) in self.handler)


def _ds_len(req, kw):
    try:
        b = getattr(req, kw)
        return None if b is None else len(b.getvalue())
    except Exception:
        return None


def make_scp_handlers(case, log, box):
    """Handlers of the real acceptor; `case['rsp']` selects what they return / yield."""
    from pynetdicom import evt, build_context
    from pydicom.dataset import Dataset
    rsp = case.get("rsp", "nonempty")
    size = case.get("rsp_size", 0)
    ts_uid = TS[case.get("ts", "implicit")]
    ct_ts = TS[case.get("ct_ts", "implicit")]
    status = case.get("rsp_status", 0x0000)

    def rsp_ds():
        if rsp in ("none", "empty", "unencodable"):
            return mk_ds(rsp)
        return mk_ds("nonempty", size)

    def h_echo(event):
        log.h("C-ECHO", event.request.MessageID)
        return 0x0000

    def h_store(event):
        log.h("C-STORE", event.request.MessageID, _ds_len(event.request, "DataSet"))
        return case.get("store_status", 0x0000)

    def h_find(event):
        mid = event.request.MessageID
        log.h("C-FIND", mid, _ds_len(event.request, "Identifier"))
        mode = case.get("find", "pending")
        if mode == "final-only":
            return
        if mode == "cancel-wait":
            yield 0xFF00, mk_ds("nonempty", size, query=True)
            t0 = time.time()
            seen = False        # is_cancelled consumes the C-CANCEL: read it once
            while time.time() - t0 < 2.5:
                if event.is_cancelled:
                    seen = True
                    break
                time.sleep(0.003)
            if seen:
                log.h("C-CANCEL", mid)
            yield 0xFE00, None
            return
        for _ in range(case.get("n_pending", 2)):
            if rsp in ("none", "empty", "unencodable"):
                yield 0xFF00, mk_ds(rsp)
            else:
                yield 0xFF00, mk_ds("nonempty", size, query=True)
        if mode == "failure":
            yield 0xA700, rsp_ds()

    def failed_list():
        ds = rsp_ds()
        if ds is not None and rsp in ("nonempty", "unencodable"):
            ds.FailedSOPInstanceUIDList = [INSTANCE]
        return ds

    def retrieve_steps(event, which):
        mode = case.get("retrieve", "fail-immediately")
        if mode == "zero":
            yield 0
            return
        yield 1
        if mode == "fail-immediately":
            yield case.get("final_status", 0xA702), failed_list()
        elif mode == "cancel":
            yield 0xFE00, failed_list()
        elif mode == "subop":
            yield 0xFF00, mk_ct(ct_ts, case.get("ct_size", 0))
        elif mode == "subop-then-status":
            yield 0xFF00, mk_ct(ct_ts, case.get("ct_size", 0))
            yield case.get("final_status", 0xB000), failed_list()

    def h_get(event):
        log.h("C-GET", event.request.MessageID, _ds_len(event.request, "Identifier"))
        yield from retrieve_steps(event, "get")

    def h_move(event):
        log.h("C-MOVE", event.request.MessageID, _ds_len(event.request, "Identifier"))
        if case.get("retrieve") == "unknown-dest":
            yield None, None
            return
        yield "127.0.0.1", box["port"], {"contexts": [build_context(CT, ct_ts)], "max_pdu": case.get("dest_max", 16382)}
        yield from retrieve_steps(event, "move")

    def n_handler(name, kw):
        def h(event):
            log.h(name, event.request.MessageID, _ds_len(event.request, kw) if kw else None)
            if name == "N-CREATE" and case.get("create_uid_from_handler"):
                ds = rsp_ds() or Dataset()
                ds.AffectedSOPInstanceUID = INSTANCE
                return status, ds
            if name == "N-EVENT-REPORT" and case.get("ner_rsp") == "none":
                return status, None        # a command-only response racing the data-set fragments of the C-FIND responses
            return status, rsp_ds()
        return h

    def h_delete(event):
        log.h("N-DELETE", event.request.MessageID)
        return 0x0000

    return [(evt.EVT_C_ECHO, h_echo), (evt.EVT_C_STORE, h_store), (evt.EVT_C_FIND, h_find), (evt.EVT_C_GET, h_get),
            (evt.EVT_C_MOVE, h_move), (evt.EVT_N_GET, n_handler("N-GET", None)),
            (evt.EVT_N_SET, n_handler("N-SET", "ModificationList")),
            (evt.EVT_N_ACTION, n_handler("N-ACTION", "ActionInformation")),
            (evt.EVT_N_CREATE, n_handler("N-CREATE", "AttributeList")),
            (evt.EVT_N_EVENT_REPORT, n_handler("N-EVENT-REPORT", "EventInformation")),
            (evt.EVT_N_DELETE, h_delete)]


def make_acceptor(case, log, box, dimse_timeout):
    ae = harness.make_ae("C16-SCP", timeouts=(3.0, dimse_timeout, 8.0, 3.0), max_pdu=case.get("acc_max", 16382))
    ts_uid = TS[case.get("ts", "implicit")]
    ct_ts = TS[case.get("ct_ts", "implicit")]
    ae.add_supported_context(VERIF, TS["implicit"])
    ae.add_supported_context(CT, ct_ts, scu_role=True, scp_role=True)
    for uid in (FIND, MOVE, GET, PRINTER):
        ae.add_supported_context(uid, ts_uid)
    server, port = harness.start_server(ae, make_scp_handlers(case, log, box))
    box["port"] = port
    return ae, port


# ================================================================== scenario: real requestor <-> real acceptor

def call_api(assoc, case, log, tmpdir):
    """Drive ONE public send_* call.  -> dict(results=[(status|None, has_dataset)], raised=str|None)."""
    api = case["api"]
    mid = case.get("msg_id", 7)
    ds = mk_ds(case.get("ds", "nonempty"), case.get("ds_size", 0), query=api in ("c_find", "c_get", "c_move", "c_cancel"))
    res = []
    out = {"results": res, "raised": None}

    def one(st, data=None):
        res.append((getattr(st, "Status", None), data is not None and len(data) > 0 if hasattr(data, "__len__") else data is not None))

    try:
        if api == "c_echo":
            one(assoc.send_c_echo(msg_id=mid))
        elif api == "c_store":
            mode = case.get("store_mode", "dataset")
            ct_ts = TS[case.get("ct_ts", "implicit")]
            if case["ds"] == "absent":
                obj = None
            elif mode == "dataset":
                obj = mk_ds("empty") if case["ds"] == "empty" else mk_ct(ct_ts, case.get("ds_size", 0))
            else:
                obj = write_dicom_file(tmpdir, ct_ts, empty=(case["ds"] == "empty"), size=case.get("ds_size", 0))
            one(assoc.send_c_store(obj, msg_id=mid))
        elif api == "c_find":
            for st, ident in assoc.send_c_find(ds, FIND, msg_id=mid):
                one(st, ident)
        elif api == "c_cancel":
            gen = assoc.send_c_find(ds, FIND, msg_id=mid)
            st, ident = next(gen)
            one(st, ident)
            if case.get("cancel_by", "model") == "model":
                assoc.send_c_cancel(mid, query_model=FIND)
            else:
                cx = [c for c in assoc.accepted_contexts if c.abstract_syntax == FIND][0]
                assoc.send_c_cancel(mid, context_id=cx.context_id)
            for st, ident in gen:
                one(st, ident)
        elif api == "c_get":
            for st, ident in assoc.send_c_get(ds, GET, msg_id=mid):
                one(st, ident)
        elif api == "c_move":
            for st, ident in assoc.send_c_move(ds, "C16-SCP", MOVE, msg_id=mid):
                one(st, ident)
        elif api == "n_event_report":
            st, d = assoc.send_n_event_report(ds, 1, PRINTER, INSTANCE, msg_id=mid)
            one(st, d)
        elif api == "n_get":
            tags = {"absent": [], "empty": [], "nonempty": [0x00100010, 0x00100020]}[case.get("ds", "nonempty")]
            st, d = assoc.send_n_get(tags, PRINTER, INSTANCE, msg_id=mid)
            one(st, d)
        elif api == "n_set":
            st, d = assoc.send_n_set(ds, PRINTER, INSTANCE, msg_id=mid)
            one(st, d)
        elif api == "n_action":
            st, d = assoc.send_n_action(ds, 1, PRINTER, INSTANCE, msg_id=mid)
            one(st, d)
        elif api == "n_create":
            inst = None if case.get("create_uid_from_handler") else INSTANCE
            st, d = assoc.send_n_create(ds, PRINTER, inst, msg_id=mid)
            one(st, d)
        elif api == "n_delete":
            one(assoc.send_n_delete(PRINTER, INSTANCE, msg_id=mid))
        else:
            raise ValueError(api)
    except Exception as exc:
        out["raised"] = "%s: %s" % (type(exc).__name__, str(exc)[:160])
    return out


WATCHDOG = 25.0


def requestor_actions(assoc, case, log, tmpdir, echo_id, watchdog):
    """The requestor's user thread: the send_* call under test, the follow-up C-ECHO, the release - bounded by a watchdog
    (a case must never block: e.g. a generator of the code under test that yields while holding the association lock)."""
    out = {"outcome": {"results": [], "raised": None}, "echo_ok": False, "echo_err": None, "blocked": None}
    done = threading.Event()

    def run():
        try:
            out["outcome"] = call_api(assoc, case, log, tmpdir)
            time.sleep(0.005)
            try:
                st = assoc.send_c_echo(msg_id=echo_id)
                out["echo_ok"] = getattr(st, "Status", None) == 0x0000
            except Exception as exc:
                out["echo_err"] = "%s: %s" % (type(exc).__name__, str(exc)[:100])
            try:
                if assoc.is_established:
                    assoc.release()
            except Exception:
                pass
        finally:
            done.set()

    th = threading.Thread(target=run, daemon=True, name="c16-user")
    th.start()
    if not done.wait(watchdog):
        out["blocked"] = taps.stack_of(th)[-4:]
        try:
            assoc._kill = True
            assoc.dul.kill_dul()
        except Exception:
            pass
    return out


def proxies_by_role(main_req):
    """{'requestor': proxy, 'acceptor': proxy, 'move-scu': [...], 'move-dest': [...]}"""
    out = {"requestor": None, "acceptor": None, "move-scu": [], "move-dest": []}
    socks = list(taps.State.socks)
    for p in socks:
        if p.assoc is main_req:
            out["requestor"] = p
    acc = [p for p in socks if getattr(p.assoc, "is_acceptor", False)]
    rq_others = [p for p in socks if getattr(p.assoc, "is_requestor", False) and p.assoc is not main_req]
    if acc:
        out["acceptor"] = acc[0]          # the first accepted connection is the main association
        out["move-dest"] = acc[1:]
    out["move-scu"] = rq_others
    return out


def run_pair_once(case, counters, dimse_timeout):
    from pynetdicom import evt, build_role
    taps.reset()
    SendTap.reset()
    RecvTap.reset()
    log = Log()
    box = {}
    viol = []
    sample = {}
    tmpdir = tempfile.mkdtemp(prefix="c16_")
    from pynetdicom import _config
    saved_chunk = _config.STORE_SEND_CHUNKED_DATASET
    acc_ae = req_ae = None
    api = case["api"]
    try:
        _config.STORE_SEND_CHUNKED_DATASET = case.get("store_mode") == "path-chunked"
        acc_ae, port = make_acceptor(case, log, box, dimse_timeout)
        req_ae = harness.make_ae("C16-SCU", timeouts=(3.0, dimse_timeout, 8.0, 3.0))
        ts_uid = TS[case.get("ts", "implicit")]
        ct_ts = TS[case.get("ct_ts", "implicit")]
        req_ae.add_requested_context(VERIF, TS["implicit"])
        req_ae.add_requested_context(CT, ct_ts)
        for uid in (FIND, MOVE, GET, PRINTER):
            req_ae.add_requested_context(uid, ts_uid)

        def h_store_scu(event):
            log.h("C-STORE@req", event.request.MessageID, _ds_len(event.request, "DataSet"))
            return case.get("subop_status", 0x0000)

        assoc = req_ae.associate("127.0.0.1", port, max_pdu=case.get("req_max", 16382), ae_title="C16-SCP",
                                 ext_neg=[build_role(CT, scu_role=True, scp_role=True)],
                                 evt_handlers=[(evt.EVT_C_STORE, h_store_scu)])
        if not assoc.is_established:
            return dict(viol=[], inconclusive="association not established", sample={}, nontrivial=False, sigs=[])
        echo_id = (case.get("msg_id", 7) + 101) % 65535 + 1
        ua = requestor_actions(assoc, case, log, tmpdir, echo_id, WATCHDOG)
        outcome, echo_ok, echo_err, blocked = ua["outcome"], ua["echo_ok"], ua["echo_err"], ua["blocked"]
        harness.wait_for(lambda: not assoc.is_alive(), 3.0 if not blocked else 0.2)
        taps.wait_quiet(3.0)
        roles = proxies_by_role(assoc)
        streams = {}
        if roles["requestor"] is not None:
            streams["requestor"] = taps.wire_bytes(roles["requestor"].sid, "tx")
        if roles["acceptor"] is not None:
            streams["acceptor"] = taps.wire_bytes(roles["acceptor"].sid, "tx")
        for i, p in enumerate(roles["move-scu"]):
            streams["move-scu:%d" % i] = taps.wire_bytes(p.sid, "tx")
        for i, p in enumerate(roles["move-dest"]):
            streams["move-dest:%d" % i] = taps.wire_bytes(p.sid, "tx")
        excs = list(taps.State.excs)
        recv = {"req": RecvTap.of(assoc), "acc": RecvTap.of(roles["acceptor"].assoc) if roles["acceptor"] is not None else []}
    finally:
        _config.STORE_SEND_CHUNKED_DATASET = saved_chunk
        for ae in (req_ae, acc_ae):
            if ae is not None:
                harness.stop_ae(ae)
        shutil.rmtree(tmpdir, ignore_errors=True)

    msgs = {}
    for label, stream in streams.items():
        sender = label.split(":")[0]
        m, v = judge_wire(stream, sender)
        msgs[label] = m
        viol.extend(v)
    wire_clean = not viol
    rq_name = RQ_OF_API[api]
    req_msgs = msgs.get("requestor", [])
    acc_msgs = msgs.get("acceptor", [])
    main_mid = case.get("msg_id", 7)
    sent_main = [s for s in req_msgs if s["name"] == (rq_name if api != "c_cancel" else "C-FIND-RQ") and s["mid"] == main_mid]
    sigs = []
    for label, ml in msgs.items():
        for s in ml:
            sigs.append(sig_of("pair", s))
    bump(counters, "messages_judged", sum(len(ml) for ml in msgs.values()))
    sample.update(api=api, ds=case.get("ds"), rsp=case.get("rsp"), results=outcome["results"], raised=outcome["raised"],
                  echo_ok=echo_ok, handler=log.handler[:8],
                  wire={k: [(s["name"], s["mid"], s["status"], s["cdst"], s["cfrags"], s["dfrags"], s["dlen"]) for s in v][:10]
                        for k, v in msgs.items()})
    if blocked:
        sample["blocked"] = blocked
        bump(counters, "user_thread_blocked")
        return dict(viol=viol, inconclusive=(None if viol else "requestor user thread blocked > %.0f s at %r" % (WATCHDOG, blocked)),
                    sample=sample, nontrivial=bool(viol), sigs=sigs, wire_clean=wire_clean)

    # ---- inputs the public API rejects before anything is sent: skipped and counted
    if not sent_main:
        if outcome["raised"]:
            bump(counters, "api_rejected")
            bump(counters, "api_rejected_%s_%s" % (api, case.get("ds")))
            return dict(viol=viol, inconclusive=None, sample=sample, nontrivial=False, sigs=sigs, wire_clean=wire_clean)
        return dict(viol=viol, inconclusive="request %s not found on the requestor's wire log" % rq_name, sample=sample,
                    nontrivial=False, sigs=sigs, wire_clean=wire_clean)

    delivery = []

    def undelivered(name, variant, detail):
        delivery.append({"key": "not-delivered|%s|%s" % (name, variant_label(variant)), "detail": detail})

    # ---- (a) every message on a sender's wire was completed by the receiving pynetdicom (EVT_DIMSE_RECV, in order)
    for sender, other in (("requestor", "acc"), ("acceptor", "req")):
        sent = [(s["name"], s["mid"]) for s in msgs.get(sender, [])]
        got = list(recv[other])
        for i, item in enumerate(sent):
            if i >= len(got) or got[i] != item:
                var = case.get("ds") if item[0].endswith("-RQ") else case.get("rsp")
                if item[0] in ("C-ECHO-RQ", "C-ECHO-RSP", "C-CANCEL-RQ", "N-DELETE-RQ", "N-DELETE-RSP", "C-STORE-RSP", "N-GET-RQ"):
                    var = "absent"
                undelivered(item[0], var, "%s sent %r (message %d of %d on its wire log) but the receiver completed %r; "
                            "call results %r raised %r" % (sender, item, i + 1, len(sent), got[i:i + 2], outcome["results"], outcome["raised"]))
                break
    # ---- (b) requests reach the service layer: bound handler ran, or the service class answered
    ev_of = {"C-ECHO-RQ": "C-ECHO", "C-STORE-RQ": "C-STORE", "C-FIND-RQ": "C-FIND", "C-GET-RQ": "C-GET", "C-MOVE-RQ": "C-MOVE",
             "C-CANCEL-RQ": "C-CANCEL", "N-EVENT-REPORT-RQ": "N-EVENT-REPORT", "N-GET-RQ": "N-GET", "N-SET-RQ": "N-SET",
             "N-ACTION-RQ": "N-ACTION", "N-CREATE-RQ": "N-CREATE", "N-DELETE-RQ": "N-DELETE"}
    for s in req_msgs:
        if not s["name"].endswith("-RQ"):
            continue
        ran = log.ran(ev_of.get(s["name"], "?"), s["mid"])
        answered = any(a["name"] == s["name"][:-3] + "-RSP" and a["mid"] == s["mid"] for a in acc_msgs)
        if ran:
            bump(counters, "requests_reached_handler")
        elif answered:
            bump(counters, "requests_answered_by_service_class")
        else:
            var = "absent" if s["name"] in ("C-ECHO-RQ", "C-CANCEL-RQ", "N-DELETE-RQ", "N-GET-RQ") else case.get("ds")
            undelivered(s["name"], var, "request %r on the requestor's wire: handler %s never ran and no response on the "
                        "acceptor's wire; handler log %r" % ((s["name"], s["mid"], s["cdst"], s["dfrags"]), ev_of.get(s["name"]), log.handler[:6]))
    for s in acc_msgs:      # C-GET sub-operations: request sent by the acceptor
        if s["name"] == "C-STORE-RQ" and not log.ran("C-STORE@req", s["mid"]):
            undelivered("C-STORE-RQ", "nonempty", "C-GET sub-operation %r: the requestor's C-STORE handler never ran" % (s["mid"],))
    # ---- (c) responses are returned / yielded by the requestor's call
    rsp_name = (rq_name if api != "c_cancel" else "C-FIND-RQ")[:-3] + "-RSP"
    wire_status = [s["status"] for s in acc_msgs if s["name"] == rsp_name and s["mid"] == main_mid]
    got_status = [r[0] for r in outcome["results"]]
    if delivery and not wire_status:
        pass        # the request itself was not delivered (reported above): there is no response to judge
    elif wire_status != got_status:
        undelivered(rsp_name, case.get("rsp"), "statuses on the acceptor's wire %r, returned/yielded by send_%s %r (raised %r)" % (
            [hex(x) if isinstance(x, int) else x for x in wire_status], api, [hex(x) if isinstance(x, int) else x for x in got_status],
            outcome["raised"]))
    if not wire_status and not delivery:
        undelivered(rsp_name, case.get("rsp"), "no response to %s %r on the acceptor's wire" % (rq_name, main_mid))
    # ---- (d) the association survives: the follow-up C-ECHO-RQ is completed by the acceptor and answered on the wire.
    # (Whether the requestor's send_c_echo() then returns that answer is not this property's subject: back-to-back send_*
    # calls race with the requestor's reactor thread, which can take the response off the queue and drop it.)
    echo_served = ("C-ECHO-RQ", echo_id) in recv["acc"] and any(a["name"] == "C-ECHO-RSP" and a["mid"] == echo_id for a in acc_msgs)
    if echo_served and not echo_ok:
        bump(counters, "echo_response_completed_but_not_returned")
        sample["echo_note"] = "C-ECHO-RSP %d completed by the requestor's DIMSE provider: %r; send_c_echo: %r" % (
            echo_id, ("C-ECHO-RSP", echo_id) in recv["req"], echo_err)
    echo_ok = echo_ok or echo_served
    if not echo_ok and not delivery:
        delivery.append({"key": "association-lost-after|%s|%s" % (rq_name, variant_label(case.get("ds"))),
                         "detail": "follow-up C-ECHO failed (%r) although every message was delivered; results %r" % (echo_err, outcome["results"])})
    elif not echo_ok:
        delivery[0]["detail"] += "; follow-up C-ECHO failed (%r)" % (echo_err,)
    for e in excs:
        if "pynetdicom" in (e.get("where") or "") or e.get("where"):
            sample.setdefault("escaped_exceptions", []).append("%s@%s" % (e["type"], e["where"]))

    # coverage counters
    bump(counters, "pair_cases")
    bump(counters, "api_" + api)
    for s in sent_main[:1]:
        if case.get("ds") == "empty":
            bump(counters, "req_empty_dataset_sent")
            bump(counters, "req_empty_as_no_dataset" if s["flag"] is False else "req_empty_as_flagged_dataset")
            if case.get("store_mode") == "path-chunked":
                bump(counters, "chunked_empty_file_sent")
        if s["dfrags"] and s["dlen"] == 0:
            bump(counters, "req_zero_length_dataset_fragment")
    if case.get("rsp") == "empty" and any(h[0] not in ("C-ECHO", "C-STORE", "N-DELETE") for h in log.handler):
        bump(counters, "rsp_empty_dataset_handlers")
    if case.get("rsp") == "none":
        bump(counters, "rsp_none_dataset_handlers")
    for s in acc_msgs:
        if s["name"].endswith("-RSP") and s["dfrags"]:
            bump(counters, "rsp_with_dataset_on_wire")
            if s["name"] in ("C-GET-RSP", "C-MOVE-RSP"):
                bump(counters, "retrieve_final_with_identifier")
        if (s["cfrags"] + s["dfrags"]) > 2:
            bump(counters, "multi_fragment_messages")
    for s in req_msgs:
        if (s["cfrags"] + s["dfrags"]) > 2:
            bump(counters, "multi_fragment_messages")
    return dict(viol=viol, delivery=delivery, inconclusive=None, sample=sample, nontrivial=True, sigs=sigs, wire_clean=wire_clean)


def run_pair(case, counters, attempt=0):
    r = run_pair_once(case, counters, 3.0 if attempt == 0 else 8.0)
    r["viol"] = list(r["viol"]) + list(r.get("delivery") or [])
    return r


# ================================================================== scenario: real requestor -> scripted acceptor

def peer_acceptor_script(lst, case, rec, stop):
    """The reference acceptor: accept, then answer every request it can reassemble; everything is recorded in `rec`."""
    peer = lst.accept(5.0)
    rec["peer"] = peer
    if peer is None:
        rec["error"] = "no connection"
        return
    try:
        results = {}
        rq = peer.recv_pdu(5.0)
        if not rq or rq.get("type") != "RQ":
            rec["error"] = "no A-ASSOCIATE-RQ"
            return
        for si in rq.get("ui") or []:
            if si["k"] == "maxlen":
                peer.max_len_peer = si["v"]
        ac = ps38.make_ac(rq, maxlen=case.get("acc_max", 16382))
        rec["ctx"] = {pc["id"]: pc["abs"] for pc in rq["pcs"]}
        peer.send_pdu(ac)
        rsp_kind = case.get("rsp", "nonempty")
        rsp_data = None if rsp_kind in ("none", "absent") else ref_dataset(case.get("rsp_size", 0))
        pending_find = None
        while not stop.is_set():
            m = peer.recv_dimse(timeout=case.get("peer_wait", 4.0))
            if m is None:
                rec["events"].append(("timeout", None))
                break
            if m["type"] != "DIMSE":
                rec["events"].append((m["type"], None))
                if m["type"] == "RELRQ":
                    peer.send_pdu({"type": "RELRP"})
                break
            cmd = m["cmd"] or {}
            name = cmdset.FIELD_NAME.get(cmd.get("CommandField"), "unknown")
            mid = cmd.get("MessageID") if name != "C-CANCEL-RQ" else cmd.get("MessageIDBeingRespondedTo")
            rec["events"].append((name, mid, cmd.get("CommandDataSetType"), None if m["data"] is None else len(m["data"])))
            ctx = m["ctx"]
            mk = cmdset.make
            sop = cmd.get("AffectedSOPClassUID") or cmd.get("RequestedSOPClassUID")
            inst = cmd.get("AffectedSOPInstanceUID") or cmd.get("RequestedSOPInstanceUID") or INSTANCE

            def send(kind, data=None, **kw):
                if data is not None:
                    kw["CommandDataSetType"] = 0x0001
                peer.send_dimse(ctx, mk(kind, MessageIDBeingRespondedTo=mid, **kw), data)

            if name == "C-ECHO-RQ":
                send("C-ECHO-RSP", AffectedSOPClassUID=sop, Status=0)
            elif name == "C-STORE-RQ":
                send("C-STORE-RSP", AffectedSOPClassUID=sop, AffectedSOPInstanceUID=inst, Status=0)
            elif name == "C-FIND-RQ":
                if case["api"] == "c_cancel":
                    send("C-FIND-RSP", ref_dataset(), AffectedSOPClassUID=sop, Status=0xFF00)
                    pending_find = (ctx, mid, sop)
                else:
                    if rsp_data is not None:
                        send("C-FIND-RSP", rsp_data, AffectedSOPClassUID=sop, Status=0xFF00)
                    send("C-FIND-RSP", AffectedSOPClassUID=sop, Status=0)
            elif name == "C-CANCEL-RQ":
                if pending_find:
                    peer.send_dimse(pending_find[0], mk("C-FIND-RSP", MessageIDBeingRespondedTo=pending_find[1],
                                                        AffectedSOPClassUID=pending_find[2], Status=0xFE00))
                    pending_find = None
            elif name in ("C-GET-RQ", "C-MOVE-RQ"):
                kind = name[:-3] + "-RSP"
                if rsp_data is not None:
                    fl = _el(8, 0x58, INSTANCE.encode(), True)
                    send(kind, fl, AffectedSOPClassUID=sop, Status=0xA702, NumberOfCompletedSuboperations=0,
                         NumberOfFailedSuboperations=1, NumberOfWarningSuboperations=0)
                else:
                    send(kind, AffectedSOPClassUID=sop, Status=0, NumberOfCompletedSuboperations=0,
                         NumberOfFailedSuboperations=0, NumberOfWarningSuboperations=0)
            elif name == "N-EVENT-REPORT-RQ":
                send("N-EVENT-REPORT-RSP", rsp_data, AffectedSOPClassUID=sop, AffectedSOPInstanceUID=inst, Status=0,
                     EventTypeID=cmd.get("EventTypeID", 1))
            elif name == "N-ACTION-RQ":
                send("N-ACTION-RSP", rsp_data, AffectedSOPClassUID=sop, AffectedSOPInstanceUID=inst, Status=0,
                     ActionTypeID=cmd.get("ActionTypeID", 1))
            elif name in ("N-GET-RQ", "N-SET-RQ", "N-CREATE-RQ"):
                send(name[:-3] + "-RSP", rsp_data, AffectedSOPClassUID=sop, AffectedSOPInstanceUID=inst, Status=0)
            elif name == "N-DELETE-RQ":
                send("N-DELETE-RSP", AffectedSOPClassUID=sop, AffectedSOPInstanceUID=inst, Status=0)
            else:
                rec["events"].append(("unanswerable", name))
    except Exception as exc:
        rec["error"] = "peer script: %r" % (exc,)
    finally:
        peer.wait_eof(1.0)
        peer.close()


def run_peer_acc(case, counters, attempt=0):
    from pynetdicom import evt
    taps.reset()
    SendTap.reset()
    RecvTap.reset()
    log = Log()
    viol = []
    tmpdir = tempfile.mkdtemp(prefix="c16_")
    from pynetdicom import _config
    saved_chunk = _config.STORE_SEND_CHUNKED_DATASET
    api = case["api"]
    lst = Listener()
    rec = {"events": [], "peer": None}
    stop = threading.Event()
    th = threading.Thread(target=peer_acceptor_script, args=(lst, case, rec, stop), daemon=True)
    th.start()
    req_ae = None
    try:
        _config.STORE_SEND_CHUNKED_DATASET = case.get("store_mode") == "path-chunked"
        req_ae = harness.make_ae("C16-SCU", timeouts=(3.0, 3.0, 8.0, 3.0))
        req_ae.add_requested_context(VERIF, TS["implicit"])
        req_ae.add_requested_context(CT, TS["implicit"])
        for uid in (FIND, MOVE, GET, PRINTER):
            req_ae.add_requested_context(uid, TS["implicit"])
        assoc = req_ae.associate("127.0.0.1", lst.port, max_pdu=case.get("req_max", 16382))
        if not assoc.is_established:
            stop.set()
            return dict(viol=[], inconclusive="association with the scripted acceptor not established (%r)" % rec.get("error"),
                        sample={}, nontrivial=False, sigs=[])
        echo_id = (case.get("msg_id", 7) + 101) % 65535 + 1
        ua = requestor_actions(assoc, case, log, tmpdir, echo_id, WATCHDOG)
        outcome, echo_ok, echo_err, blocked = ua["outcome"], ua["echo_ok"], ua["echo_err"], ua["blocked"]
        harness.wait_for(lambda: not assoc.is_alive(), 3.0 if not blocked else 0.2)
        stop.set()
        th.join(6.0)
        taps.wait_quiet(3.0)
        proxy = [p for p in taps.State.socks if p.assoc is assoc]
        tx = taps.wire_bytes(proxy[0].sid, "tx") if proxy else b""
    finally:
        _config.STORE_SEND_CHUNKED_DATASET = saved_chunk
        stop.set()
        if req_ae is not None:
            harness.stop_ae(req_ae)
        lst.close()
        shutil.rmtree(tmpdir, ignore_errors=True)
    peer = rec.get("peer")
    msgs, v = judge_wire(tx, "requestor")
    viol.extend(v)
    peer_rx = peer.rx_all if peer is not None else b""
    pmsgs, pv = judge_wire(peer_rx, "requestor")
    seen = {x["key"] for x in viol}
    viol.extend(x for x in pv if x["key"] not in seen)
    sigs = [sig_of("peer-acc", s) for s in msgs]
    bump(counters, "messages_judged", len(msgs) + len(pmsgs))
    sample = dict(kind="peer-acc", api=api, ds=case.get("ds"), rsp=case.get("rsp"), results=outcome["results"], raised=outcome["raised"],
                  echo_ok=echo_ok, peer_events=rec["events"][:8], peer_error=rec.get("error"),
                  wire=[(s["name"], s["mid"], s["cdst"], s["cfrags"], s["dfrags"], s["dlen"]) for s in msgs][:8])
    if blocked:
        sample["blocked"] = blocked
        bump(counters, "user_thread_blocked")
        return dict(viol=viol, inconclusive=(None if viol else "requestor user thread blocked > %.0f s at %r" % (WATCHDOG, blocked)),
                    sample=sample, nontrivial=bool(viol), sigs=sigs)
    if rec.get("error"):
        return dict(viol=viol, inconclusive=rec["error"], sample=sample, nontrivial=False, sigs=sigs)
    if peer_rx != tx[:len(peer_rx)] or (len(peer_rx) != len(tx) and not viol):
        # the peer must have seen exactly the bytes the proxy logged (sanity of the observation itself)
        if not viol:
            return dict(viol=viol, inconclusive="peer rx log (%d bytes) differs from the proxy tx log (%d bytes)" % (len(peer_rx), len(tx)),
                        sample=sample, nontrivial=False, sigs=sigs)
    rq_name = RQ_OF_API[api] if api != "c_cancel" else "C-FIND-RQ"
    main_mid = case.get("msg_id", 7)
    sent_main = [s for s in msgs if s["name"] == rq_name and s["mid"] == main_mid]
    if not sent_main:
        if outcome["raised"]:
            bump(counters, "api_rejected")
            return dict(viol=viol, inconclusive=None, sample=sample, nontrivial=False, sigs=sigs)
        return dict(viol=viol, inconclusive="request %s not on the wire" % rq_name, sample=sample, nontrivial=False, sigs=sigs)
    # every request on the wire was reassembled by the reference peer (= handed to ITS service layer)
    got = [(e[0], e[1]) for e in rec["events"] if len(e) == 4]
    for s in msgs:
        if s["name"].endswith("-RQ") and (s["name"], s["mid"]) not in got:
            var = "absent" if s["name"] in ("C-ECHO-RQ", "C-CANCEL-RQ", "N-DELETE-RQ", "N-GET-RQ") else case.get("ds")
            viol.append({"key": "not-delivered|%s|%s" % (s["name"], variant_label(var)),
                         "detail": "scripted reference acceptor never completed %r (CommandDataSetType %r, %d data fragments); "
                                   "peer events %r; call results %r raised %r" % ((s["name"], s["mid"]), s["cdst"], s["dfrags"],
                                                                                  rec["events"][:6], outcome["results"], outcome["raised"])})
            break
    if not any(x["key"].startswith("not-delivered") for x in viol):
        if not outcome["results"] or outcome["results"][-1][0] is None:
            # the peer answered; an empty status means the requestor could not take the (reference-built) answer - not C16's subject
            return dict(viol=viol, inconclusive="requestor returned no status for a delivered request (results %r raised %r, peer %r)" % (
                outcome["results"], outcome["raised"], rec["events"][:6]), sample=sample, nontrivial=False, sigs=sigs)
        echo_served = ("C-ECHO-RQ", echo_id) in got
        if echo_served and not echo_ok:
            bump(counters, "echo_response_completed_but_not_returned")
        if not (echo_ok or echo_served):
            viol.append({"key": "association-lost-after|%s|%s" % (rq_name, variant_label(case.get("ds"))),
                         "detail": "follow-up C-ECHO failed: %r; peer events %r" % (echo_err, rec["events"][:8])})
    bump(counters, "peer_acc_cases")
    bump(counters, "api_" + api)
    if case.get("ds") == "empty":
        bump(counters, "req_empty_dataset_sent")
        bump(counters, "req_empty_as_no_dataset" if sent_main[0]["flag"] is False else "req_empty_as_flagged_dataset")
        if case.get("store_mode") == "path-chunked":
            bump(counters, "chunked_empty_file_sent")
    if sent_main[0]["dfrags"] and sent_main[0]["dlen"] == 0:
        bump(counters, "req_zero_length_dataset_fragment")
    for s in msgs:
        if (s["cfrags"] + s["dfrags"]) > 2:
            bump(counters, "multi_fragment_messages")
    return dict(viol=viol, inconclusive=None, sample=sample, nontrivial=True, sigs=sigs)


# ================================================================== scenario: scripted requestor -> real acceptor

PEER_CTX = {1: VERIF, 3: CT, 5: FIND, 7: GET, 9: MOVE, 11: PRINTER}


def peer_request(rt, mid, data):
    """(context id, command dict, data-set bytes|None) of one conformant request built by the reference."""
    mk = cmdset.make
    kw = {"CommandDataSetType": 0x0001} if data is not None else {}
    if rt == "C-ECHO":
        return 1, mk("C-ECHO-RQ", AffectedSOPClassUID=VERIF, MessageID=mid), None
    if rt == "C-STORE":
        return 3, mk("C-STORE-RQ", AffectedSOPClassUID=CT, MessageID=mid, Priority=0, AffectedSOPInstanceUID=INSTANCE, **kw), data
    if rt == "C-FIND":
        return 5, mk("C-FIND-RQ", AffectedSOPClassUID=FIND, MessageID=mid, Priority=0, **kw), data
    if rt == "C-GET":
        return 7, mk("C-GET-RQ", AffectedSOPClassUID=GET, MessageID=mid, Priority=0, **kw), data
    if rt == "C-MOVE":
        return 9, mk("C-MOVE-RQ", AffectedSOPClassUID=MOVE, MessageID=mid, Priority=0, MoveDestination="C16-SCP", **kw), data
    if rt == "N-EVENT-REPORT":
        return 11, mk("N-EVENT-REPORT-RQ", AffectedSOPClassUID=PRINTER, MessageID=mid, AffectedSOPInstanceUID=INSTANCE,
                      EventTypeID=1, **kw), data
    if rt == "N-GET":
        return 11, mk("N-GET-RQ", RequestedSOPClassUID=PRINTER, MessageID=mid, RequestedSOPInstanceUID=INSTANCE,
                      AttributeIdentifierList=[(0x0010, 0x0010)]), None
    if rt == "N-SET":
        return 11, mk("N-SET-RQ", RequestedSOPClassUID=PRINTER, MessageID=mid, RequestedSOPInstanceUID=INSTANCE, **kw), data
    if rt == "N-ACTION":
        return 11, mk("N-ACTION-RQ", RequestedSOPClassUID=PRINTER, MessageID=mid, RequestedSOPInstanceUID=INSTANCE,
                      ActionTypeID=1, **kw), data
    if rt == "N-CREATE":
        return 11, mk("N-CREATE-RQ", AffectedSOPClassUID=PRINTER, MessageID=mid, AffectedSOPInstanceUID=INSTANCE, **kw), data
    if rt == "N-DELETE":
        return 11, mk("N-DELETE-RQ", RequestedSOPClassUID=PRINTER, MessageID=mid, RequestedSOPInstanceUID=INSTANCE), None
    raise ValueError(rt)


PENDING = (0xFF00, 0xFF01)


def run_peer_req(case, counters, attempt=0):
    taps.reset()
    SendTap.reset()
    RecvTap.reset()
    log = Log()
    box = {}
    viol = []
    acc_ae = None
    peer = None
    rt = case["rt"]
    mid = case.get("msg_id", 7)
    got = []
    note = None
    echo_ok = False
    try:
        c2 = dict(case)
        c2["ts"] = "implicit"
        c2["ct_ts"] = "implicit"
        acc_ae, port = make_acceptor(c2, log, box, 3.0)
        peer = Peer.connect(port)
        pcs = [{"id": i, "abs": u, "ts": [TS["implicit"]]} for i, u in PEER_CTX.items()]
        ac = peer.associate(ps38.make_rq(called="C16-SCP", calling="C16-PEER", pcs=pcs, maxlen=case.get("req_max", 16382)))
        if not ac or ac.get("type") != "AC":
            return dict(viol=[], inconclusive="scripted requestor not accepted: %r" % (ac and ac.get("type")), sample={}, nontrivial=False, sigs=[])
        data = None
        if case.get("ds", "nonempty") == "nonempty":
            data = ref_ct_dataset(case.get("ds_size", 0)) if rt == "C-STORE" else ref_dataset(case.get("ds_size", 0))
        ctx, cmd, data = peer_request(rt, mid, data)
        peer.send_dimse(ctx, cmd, data)
        deadline = time.time() + 6.0
        while time.time() < deadline:
            m = peer.recv_dimse(timeout=max(0.1, min(4.0, deadline - time.time())))
            if m is None:
                note = "timeout waiting for a response"
                break
            if m["type"] != "DIMSE":
                note = "peer received %s instead of a response" % m["type"]
                break
            c = m["cmd"] or {}
            got.append((cmdset.FIELD_NAME.get(c.get("CommandField"), "unknown"), c.get("MessageIDBeingRespondedTo"), c.get("Status"),
                        c.get("CommandDataSetType"), None if m["data"] is None else len(m["data"])))
            if c.get("MessageIDBeingRespondedTo") == mid and c.get("Status") not in PENDING:
                break
        if note is None:
            e = peer.echo(1, (mid + 101) % 65535 + 1, timeout=4.0)
            echo_ok = bool(e and e.get("type") == "DIMSE" and (e["cmd"] or {}).get("Status") == 0)
            if e and e.get("type") == "DIMSE":
                r = peer.release(3.0)
        peer.wait_eof(1.0)
        taps.wait_quiet(3.0)
        acc = [p for p in taps.State.socks if getattr(p.assoc, "is_acceptor", False)]
        streams = {}
        if acc:
            streams["acceptor"] = taps.wire_bytes(acc[0].sid, "tx")
            for i, p in enumerate(acc[1:]):
                streams["move-dest:%d" % i] = taps.wire_bytes(p.sid, "tx")
        for i, p in enumerate([p for p in taps.State.socks if getattr(p.assoc, "is_requestor", False)]):
            streams["move-scu:%d" % i] = taps.wire_bytes(p.sid, "tx")
    finally:
        if peer is not None:
            peer.close()
        if acc_ae is not None:
            harness.stop_ae(acc_ae)
    msgs = {}
    for label, stream in streams.items():
        m, v = judge_wire(stream, label.split(":")[0])
        msgs[label] = m
        viol.extend(v)
    pm, pv = judge_wire(peer.rx_all, "acceptor")
    seen = {x["key"] for x in viol}
    viol.extend(x for x in pv if x["key"] not in seen)
    acc_msgs = msgs.get("acceptor", [])
    sigs = [sig_of("peer-req", s) for ml in msgs.values() for s in ml]
    bump(counters, "messages_judged", sum(len(x) for x in msgs.values()) + len(pm))
    sample = dict(kind="peer-req", rt=rt, ds=case.get("ds"), rsp=case.get("rsp"), got=got[:8], note=note, echo_ok=echo_ok,
                  handler=log.handler[:6],
                  wire=[(s["name"], s["mid"], s["status"], s["cdst"], s["cfrags"], s["dfrags"], s["dlen"]) for s in acc_msgs][:8])
    ran = log.ran(rt, mid)
    rsp_name = rt + "-RSP"
    wire_rsps = [s for s in acc_msgs if s["name"] == rsp_name and s["mid"] == mid]
    if not ran and not wire_rsps:
        return dict(viol=viol, inconclusive="the reference request did not reach handler %s and was not answered (%r)" % (rt, note),
                    sample=sample, nontrivial=False, sigs=sigs)
    # every response on the acceptor's wire was completed by the reference peer, in order
    got_rsps = [(g[0], g[1], g[2]) for g in got if g[0] == rsp_name]
    sent_rsps = [(s["name"], s["mid"], s["status"]) for s in wire_rsps]
    if got_rsps != sent_rsps:
        viol.append({"key": "not-delivered|%s|%s" % (rsp_name, variant_label(case.get("rsp"))),
                     "detail": "responses on the acceptor's wire %r, completed by the reference requestor %r (%s)" % (sent_rsps, got_rsps, note)})
    elif not wire_rsps or wire_rsps[-1]["status"] in PENDING:
        viol.append({"key": "not-delivered|%s|%s" % (rsp_name, variant_label(case.get("rsp"))),
                     "detail": "no final response: wire %r, peer got %r (%s)" % (sent_rsps, got_rsps, note)})
    elif not echo_ok:
        viol.append({"key": "association-lost-after|%s|%s" % (rsp_name, variant_label(case.get("rsp"))),
                     "detail": "follow-up C-ECHO by the reference requestor failed; got %r" % (got[:6],)})
    bump(counters, "peer_req_cases")
    bump(counters, "rt_" + rt)
    if case.get("rsp") == "empty" and ran and rt not in ("C-ECHO", "C-STORE", "N-DELETE"):
        bump(counters, "rsp_empty_dataset_handlers")
    if case.get("rsp") == "none" and ran:
        bump(counters, "rsp_none_dataset_handlers")
    for s in acc_msgs:
        if s["name"].endswith("-RSP") and s["dfrags"]:
            bump(counters, "rsp_with_dataset_on_wire")
            if s["name"] in ("C-GET-RSP", "C-MOVE-RSP"):
                bump(counters, "retrieve_final_with_identifier")
        if (s["cfrags"] + s["dfrags"]) > 2:
            bump(counters, "multi_fragment_messages")
    return dict(viol=viol, inconclusive=None, sample=sample, nontrivial=True, sigs=sigs)


# ================================================================== scenario: N-EVENT-REPORT while a C-FIND is answered

def run_concurrent(case, counters, attempt=0):
    from pynetdicom import evt
    taps.reset()
    SendTap.reset()
    RecvTap.reset()
    log = Log()
    box = {}
    viol = []
    acc_ae = None
    peer = None
    n_pending = case.get("n_pending", 6)
    n_events = case.get("n_events", 4)
    mid = 21
    got = []
    note = None
    if YP is not None:
        YP.reseed(case.get("yseed", 0))
        YP.enabled = bool(case.get("yields", True))
    try:
        c2 = dict(case, ts="implicit", ct_ts="implicit", rsp="nonempty", find="pending")
        acc_ae, port = make_acceptor(c2, log, box, 3.0)
        peer = Peer.connect(port)
        pcs = [{"id": 1, "abs": VERIF, "ts": [TS["implicit"]]}, {"id": 5, "abs": FIND, "ts": [TS["implicit"]]},
               {"id": 11, "abs": PRINTER, "ts": [TS["implicit"]]}]
        ac = peer.associate(ps38.make_rq(called="C16-SCP", calling="C16-PEER", pcs=pcs, maxlen=case.get("req_max", 64)))
        if not ac or ac.get("type") != "AC":
            return dict(viol=[], inconclusive="scripted requestor not accepted", sample={}, nontrivial=False, sigs=[])
        ctx, cmd, data = peer_request("C-FIND", mid, ref_dataset())
        peer.send_dimse(ctx, cmd, data)
        # wait for the first fragment of the first response, then fire the event reports
        first = peer.recv_pdu(4.0)
        if first is None or first.get("type") != "PDATA":
            return dict(viol=[], inconclusive="no first response fragment (%r)" % (first and first.get("type")), sample={}, nontrivial=False, sigs=[])
        for k in range(n_events):
            ectx, ecmd, edata = peer_request("N-EVENT-REPORT", 100 + k, ref_dataset(case.get("ds_size", 0)))
            peer.send_dimse(ectx, ecmd, edata)
            if case.get("gap"):
                time.sleep(case["gap"])
        # collect everything the acceptor sends until it goes quiet (the reference demultiplexer judges it afterwards)
        quiet_deadline = time.time() + 12.0
        while time.time() < quiet_deadline:
            v = peer.recv_pdu(1.0)
            if v is None:
                break
            if v["type"] != "PDATA":
                note = "acceptor sent %s" % v["type"]
                break
        if note is None:
            peer.send_pdu({"type": "ABORT", "source": 0, "reason": 0})
        peer.wait_eof(1.0)
        taps.wait_quiet(3.0)
        acc = [p for p in taps.State.socks if getattr(p.assoc, "is_acceptor", False)]
        tx = taps.wire_bytes(acc[0].sid, "tx") if acc else b""
        acc_assoc_id = id(acc[0].assoc) if acc else None
    finally:
        if YP is not None:
            YP.enabled = False
        if peer is not None:
            peer.close()
        if acc_ae is not None:
            harness.stop_ae(acc_ae)
    msgs, v = judge_wire(tx, "acceptor")
    pm, pv = judge_wire(peer.rx_all, "acceptor")
    overlaps = SendTap.overlapping(acc_assoc_id)
    complete_find = [s for s in msgs if s["name"] == "C-FIND-RSP" and s["complete"] and not s["problems"]]
    complete_evt = [s for s in msgs if s["name"] == "N-EVENT-REPORT-RSP" and s["complete"] and not s["problems"]]
    bump(counters, "messages_judged", len(msgs))
    bump(counters, "concurrent_cases")
    bump(counters, "concurrent_send_msg_overlaps", overlaps)
    bump(counters, "concurrent_send_msg_entered_together", SendTap.windows_together(acc_assoc_id))
    multi = sum(1 for s in msgs if (s["cfrags"] + s["dfrags"]) > 2)
    bump(counters, "multi_fragment_messages", multi)
    if YP is not None:
        bump(counters, "yield_hits", sum(YP.hits.values()))
    sample = dict(kind="concurrent", maxlen=case.get("req_max"), n_pending=n_pending, n_events=n_events, overlaps=overlaps,
                  find_rsps=len(complete_find), event_rsps=len(complete_evt), problems=[p[:120] for p in dimse_ref.reassemble(stream_pdvs(tx)[0]).problems[:4]],
                  note=note, handler=[h[0] for h in log.handler][:8])
    ev_handlers = sum(1 for h in log.handler if h[0] == "N-EVENT-REPORT")
    if ev_handlers == 0 or not any(h[0] == "C-FIND" for h in log.handler):
        return dict(viol=[], inconclusive="handlers not reached (%r)" % (log.handler[:4],), sample=sample, nontrivial=False, sigs=[])
    if v or pv:
        if overlaps:
            first = (v or pv)[0]
            viol.append({"key": CONCURRENT_KEY,
                         "detail": "maxlen %r, %d pending C-FIND responses, %d N-EVENT-REPORT requests: %d send_msg calls overlapped on the "
                                   "acceptor and the reference demultiplexer reports %d problem(s); first: %s -> %s; only %d/%d C-FIND and "
                                   "%d/%d N-EVENT-REPORT responses are receivable" % (
                                       case.get("req_max"), n_pending, n_events, overlaps, len(v), first["key"], first["detail"][:260],
                                       len(complete_find), n_pending + 1, len(complete_evt), ev_handlers)})
        else:
            viol.extend(v)
            seen = {x["key"] for x in viol}
            viol.extend(x for x in pv if x["key"] not in seen)
    else:
        if len(complete_find) != n_pending + 1 or len(complete_evt) != ev_handlers:
            return dict(viol=[], inconclusive="clean wire but %d/%d C-FIND and %d/%d N-EVENT-REPORT responses (%r)" % (
                len(complete_find), n_pending + 1, len(complete_evt), ev_handlers, note), sample=sample, nontrivial=False, sigs=[])
    if overlaps:
        bump(counters, "concurrent_cases_with_overlap")
    sigs = [sig_of("concurrent", s) for s in msgs]
    return dict(viol=viol, inconclusive=None, sample=sample, nontrivial=True, sigs=sigs)


def run_multi_assoc(case, counters, attempt=0):
    """K associations of ONE requestor AE, each driven by its own thread, send C-FIND / C-GET / C-MOVE requests whose identifiers
    differ in length (some empty) at the same time; what each association put on the wire is judged on its own."""
    from pydicom.dataset import Dataset
    from pynetdicom import evt
    taps.reset()
    SendTap.reset()
    RecvTap.reset()
    K = case.get("k", 4)
    per = case.get("per", 6)
    rng = rng_for(case.get("yseed", 0), PID, "multi", case.get("i", 0))
    acc_ae = harness.make_ae(title="C16-SCP", timeouts=(3.0, 4.0, 6.0, 3.0), supported=[FIND, GET, MOVE])

    def on_find(event):
        return iter(())

    def on_get(event):
        yield 0

    def on_move(event):
        yield None, None
    server, port = harness.start_server(acc_ae, [(evt.EVT_C_FIND, on_find), (evt.EVT_C_GET, on_get), (evt.EVT_C_MOVE, on_move)])
    req_ae = harness.make_ae(title="C16-SCU", timeouts=(3.0, 4.0, 6.0, 3.0), requested=[FIND, GET, MOVE])
    plans, assocs, errors = [], [None] * K, []
    for a in range(K):
        plan = []
        for m in range(per):
            api = rng.choice(["find", "find", "get", "move"])
            n = 0 if rng.random() < 0.4 else 8 * (1 + a * per + m)        # identifier value length unique per (association, message)
            plan.append((api, 2 * m + 1, n))
        plans.append(plan)
    if YP is not None:
        YP.reseed(case.get("yseed", 0))
        YP.enabled = True
    barrier = threading.Barrier(K)

    def ident(n):
        ds = Dataset()
        if n:
            ds.QueryRetrieveLevel = "PATIENT"
            ds.PatientID = "P" * n
        return ds

    def worker(a):
        try:
            assoc = req_ae.associate("127.0.0.1", port)
            assocs[a] = assoc
            if not assoc.is_established:
                errors.append("association %d not established" % a)
                return
            barrier.wait(5.0)
            for (api, mid, n) in plans[a]:
                if not assoc.is_established:
                    break
                if api == "find":
                    list(assoc.send_c_find(ident(n), FIND, msg_id=mid))
                elif api == "get":
                    list(assoc.send_c_get(ident(n), GET, msg_id=mid))
                else:
                    list(assoc.send_c_move(ident(n), "DEST", MOVE, msg_id=mid))
            if assoc.is_established:
                assoc.release()
        except Exception as exc:
            errors.append("thread %d: %r" % (a, exc))
    try:
        ths = [threading.Thread(target=worker, args=(a,), daemon=True) for a in range(K)]
        for t in ths:
            t.start()
        for t in ths:
            t.join(40.0)
        taps.wait_quiet(5.0)
    finally:
        if YP is not None:
            YP.enabled = False
    viol, sigs, judged = [], [], 0
    sample = {"kind": "multi-assoc", "associations": K, "requests_per_association": per, "errors": errors[:3]}
    for a in range(K):
        proxy = next((p for p in taps.State.socks if p.assoc is assocs[a]), None)
        if proxy is None:
            continue
        msgs, v = judge_wire(taps.wire_bytes(proxy.sid, "tx"), "requestor")
        judged += len(msgs)
        viol.extend(v)
        by_mid = {s["mid"]: s for s in msgs if s["name"] in ("C-FIND-RQ", "C-GET-RQ", "C-MOVE-RQ")}
        for (api, mid, n) in plans[a]:
            s_ = by_mid.get(mid)
            if s_ is None:
                continue            # not sent (the association ended early): the wire judge above reports what was sent
            # an identifier with PatientID of n characters encodes to 8+8 (level) + 8+n bytes in implicit VR; empty -> no data set
            want = (16 + 8 + n) if n else None
            if s_["dlen"] != want:
                viol.append({"key": "other-associations-identifier|%s|send_c_%s" % (s_["name"], api),
                             "detail": "association %d, message id %d: identifier of %r bytes given, %r data-set bytes on its wire "
                                       "(CommandDataSetType %r, %d data fragments) while %d associations were sending at the same time" % (
                                           a, mid, want, s_["dlen"], s_["cdst"], s_["dfrags"], K)})
        sigs.extend(sig_of("multi", s_) for s_ in msgs)
    harness.stop_ae(req_ae)
    harness.stop_ae(acc_ae)
    bump(counters, "messages_judged", judged)
    bump(counters, "multi_assoc_cases")
    bump(counters, "multi_assoc_requests_judged", judged)
    if YP is not None:
        bump(counters, "yield_hits", sum(YP.hits.values()))
    sample["messages_judged"] = judged
    if judged < K * per // 2 and not viol:
        return dict(viol=[], inconclusive="only %d of %d requests reached the wire (%r)" % (judged, K * per, errors[:2]), sample=sample, nontrivial=False, sigs=[])
    return dict(viol=viol, inconclusive=None, sample=sample, nontrivial=True, sigs=sigs)


# ================================================================== cases

def gen_cases(tier, seed):
    rng = rng_for(seed, PID, tier)
    cases = []
    quick = tier == "quick"
    sizes_small = [0, 40]
    big = [0, 300, 3000]
    maxes = [16382, 0, 64, 128, 1024]

    def common():
        return {"msg_id": rng.choice([1, 7, 255, 256, 4097, 65535, rng.randrange(1, 65535)]),
                "ts": rng.choice(["implicit", "implicit", "explicit", "deflated"]),
                "ct_ts": rng.choice(["implicit", "explicit"]),
                "acc_max": rng.choice(maxes), "req_max": rng.choice(maxes)}

    # ---- pair: every API x request data-set variant x handler response variant
    reps = 2 if quick else 30
    for rep in range(reps):
        for api in APIS:
            for ds in ("absent", "empty", "nonempty"):
                if api in ("c_echo", "n_delete") and ds != "absent":
                    continue
                rsps = ["none", "empty", "nonempty"]
                if api in ("c_echo", "c_store", "n_delete", "c_cancel"):
                    rsps = ["nonempty"]
                if quick and ds == "absent" and api in ("c_find", "c_get", "c_move", "n_set", "c_cancel", "c_store"):
                    rsps = rsps[-1:]      # the API rejects None here (counted); one case is enough
                for rsp in rsps:
                    c = dict(kind="pair", api=api, ds=ds, rsp=rsp, rep=rep, **common())
                    c["ds_size"] = rng.choice(big if ds == "nonempty" else [0])
                    c["rsp_size"] = rng.choice(big)
                    if api == "c_store":
                        c["store_mode"] = rng.choice(["dataset", "path", "path-chunked"]) if rep else ["dataset", "path", "path-chunked"][len(cases) % 3]
                    if api == "c_cancel":
                        c["find"] = "cancel-wait"
                        c["cancel_by"] = rng.choice(["model", "context"])
                    if api == "c_find":
                        c["find"] = rng.choice(["pending", "pending", "final-only", "failure"])
                        c["n_pending"] = rng.choice([1, 2, 3])
                    if api in ("c_get", "c_move"):
                        c["retrieve"] = rng.choice(["fail-immediately", "fail-immediately", "cancel", "zero", "subop", "subop-then-status"])
                        c["final_status"] = rng.choice([0xA702, 0xB000, 0xA701 if api == "c_get" else 0xA801, 0xC000])
                        c["subop_status"] = rng.choice([0x0000, 0xA700, 0xB000])
                        c["store_status"] = c["subop_status"]
                        c["ct_size"] = rng.choice(big)
                        if api == "c_move" and rng.random() < 0.15:
                            c["retrieve"] = "unknown-dest"
                    if api.startswith("n_"):
                        c["rsp_status"] = rng.choice([0x0000, 0x0000, 0x0107, 0x0116, 0x0110])
                        if api == "n_create" and rng.random() < 0.4:
                            c["create_uid_from_handler"] = True
                    cases.append(c)
        # C-STORE: all three modes with an empty and a non-empty data set, every repetition
        for mode in ("dataset", "path", "path-chunked"):
            for ds in ("empty", "nonempty"):
                cases.append(dict(kind="pair", api="c_store", ds=ds, rsp="nonempty", store_mode=mode, rep=rep,
                                  ds_size=rng.choice(big), **common()))
        # retrieve: unencodable failed-instances identifier and sub-operation outcomes, both services
        for api in ("c_get", "c_move"):
            for retrieve, rsp in (("fail-immediately", "unencodable"), ("subop", "nonempty"), ("subop-then-status", "empty"),
                                  ("cancel", "none")):
                cases.append(dict(kind="pair", api=api, ds="nonempty", rsp=rsp, retrieve=retrieve, rep=rep,
                                  final_status=rng.choice([0xA702, 0xB000]), subop_status=rng.choice([0xA700, 0xB000, 0x0000]),
                                  store_status=0xA700, ct_size=rng.choice(big), ds_size=0, rsp_size=0, **common()))
    # ---- scripted acceptor
    reps = 2 if quick else 20
    for rep in range(reps):
        for api in APIS:
            for ds in ("absent", "empty", "nonempty"):
                if api in ("c_echo", "n_delete") and ds != "absent":
                    continue
                if ds == "absent" and api in ("c_find", "c_get", "c_move", "n_set", "c_cancel", "c_store"):
                    continue
                c = dict(kind="peer-acc", api=api, ds=ds, rsp=rng.choice(["none", "nonempty"]), rep=rep, **common())
                c["ts"] = c["ct_ts"] = "implicit"
                c["ds_size"] = rng.choice(big if ds == "nonempty" else [0])
                c["rsp_size"] = rng.choice(big)
                if api == "c_store":
                    c["store_mode"] = "path-chunked" if ds == "empty" else rng.choice(["dataset", "path", "path-chunked"])
                cases.append(c)
    # ---- scripted requestor: every response path x handler variant
    for rep in range(reps):
        for rt in ("C-ECHO", "C-STORE", "C-FIND", "C-GET", "C-MOVE", "N-EVENT-REPORT", "N-GET", "N-SET", "N-ACTION", "N-CREATE", "N-DELETE"):
            rsps = ["none", "empty", "nonempty"] if rt not in ("C-ECHO", "C-STORE", "N-DELETE") else ["nonempty"]
            for rsp in rsps:
                c = dict(kind="peer-req", rt=rt, rsp=rsp, ds=rng.choice(["absent", "nonempty"]) if rt not in ("C-STORE",) else "nonempty",
                         rep=rep, **common())
                c["req_max"] = rng.choice([16382, 0, 32, 64, 200])
                c["ds_size"] = rng.choice(big)
                c["rsp_size"] = rng.choice(big)
                if rt == "C-FIND":
                    c["find"] = rng.choice(["pending", "failure", "final-only"])
                    c["n_pending"] = rng.choice([1, 2, 4])
                if rt in ("C-GET", "C-MOVE"):
                    c["retrieve"] = rng.choice(["fail-immediately", "cancel", "zero"] + (["subop", "subop-then-status"] if rt == "C-MOVE" else []))
                    c["final_status"] = rng.choice([0xA702, 0xB000, 0xC000])
                    c["store_status"] = rng.choice([0x0000, 0xA700, 0xB000])
                    c["ct_size"] = rng.choice(big)
                if rt.startswith("N-"):
                    c["rsp_status"] = rng.choice([0x0000, 0x0000, 0x0107, 0x0116, 0x0110])
                cases.append(c)
    # ---- concurrency (thorough)
    for i in range(8 if quick else 200):
        cases.append(dict(kind="multi-assoc", k=rng.choice([3, 4, 6]), per=6, yseed=rng.getrandbits(30), i=i))
    for i in range(QUICK_CONCURRENT if quick else 240):
        cases.append(dict(kind="concurrent", ner_rsp=("none" if i % 3 == 1 else "nonempty"), req_max=rng.choice([32, 48, 64, 128, 256]), n_pending=rng.choice([4, 6, 10]),
                          n_events=rng.choice([1, 2, 4, 6]), rsp_size=rng.choice([300, 1000, 3000]), ds_size=rng.choice([0, 300]),
                          yields=(i % 6 != 0), yseed=rng.randrange(1 << 30), gap=rng.choice([0, 0, 0.002, 0.01]), acc_max=16382))
    # pinned: the N-EVENT-REPORT reply of rsp_size 300 encodes to 338 bytes = 13 x (32 - 6): a data set that is an exact multiple of the
    # fragment size, once without and once with yield injection
    for yl in (False, True):
        cases.append(dict(kind="concurrent", ner_rsp="nonempty", req_max=32, n_pending=4, n_events=3, rsp_size=300, ds_size=0,
                          yields=yl, yseed=12345, gap=0.002, acc_max=16382))
    return cases


RUNNERS = {"multi-assoc": run_multi_assoc, "pair": run_pair, "peer-acc": run_peer_acc, "peer-req": run_peer_req, "concurrent": run_concurrent}
DELIVERY_ONLY = ("not-delivered|", "association-lost-after|")


def run_case(case):
    counters = {}
    runner = RUNNERS[case["kind"]]
    r = runner(case, counters)
    if r["viol"] and all(v["key"].startswith(DELIVERY_ONLY) for v in r["viol"]):
        # clean wire but delivery not observed: re-run once (longer DIMSE timeout) before counting it - machine load
        bump(counters, "retries")
        c2 = {}
        r2 = runner(case, c2, 1)
        if not r2["viol"] and not r2.get("inconclusive"):
            bump(counters, "retries_recovered")
            r["viol"] = []
            if isinstance(r.get("sample"), dict):
                r["sample"]["retry"] = "first attempt: delivery not observed on a clean wire; second attempt delivered"
        else:
            r = r2
    seen, out = set(), []
    for v in r["viol"]:
        bump(counters, "violating_observations")
        if v["key"] not in seen:
            seen.add(v["key"])
            out.append(v)
    return {"key": sha(case), "nontrivial": bool(r.get("nontrivial")), "sample": r.get("sample"), "violations": out,
            "counters": counters, "sigs": sorted(set(r.get("sigs") or [])), "inconclusive": r.get("inconclusive")}


def extra_evidence(tier, results):
    sigs = set()
    apis = set()
    for r in results.values():
        for s in r.get("sigs") or []:
            sigs.add(s)
        for k in (r.get("counters") or {}):
            if k.startswith("api_") and not k.startswith("api_rejected"):
                apis.add(k)
    types = sorted({s.split("|")[1] for s in sigs})
    return {"distinct_nontrivial": len(sigs), "message_types_on_wire": types, "message_types_covered": len(types),
            "apis_covered": len(apis), "signatures": sorted(sigs)[:400],
            "yield_points_unresolved": (YP.unresolved if YP is not None else None)}
