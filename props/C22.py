"""C22 - C-GET and C-MOVE sub-operation counters stay consistent.

Same harness as C20 / C21 (vlib.scp_harness), restricted to the C-GET / C-MOVE request kinds (Q/R Patient / Study /
Patient-Study-Only roots, Composite Instance Root, Without Bulk Data, Hanging Protocol, Color Palette, Implant
Template x3, Defined Procedure Protocol, Protocol Approval, Inventory).  The handler announces N sub-operations
(0..5, or invalid), then yields (status, dataset) results: valid instances, instances that cannot be sent (no
SOPInstanceUID / SOPClassUID / transfer syntax), objects that are no Dataset, None / empty, final statuses of every
category, more or fewer results than announced, exceptions.  C-GET sub-operations are answered by the scripted
peer with the scripted outcome {success, warning 0xB000/0xB006/0xB007, failure 0xA700/0xC000/0x0122, unknown
status, abort, silence}; C-MOVE sub-operations go to a REAL second pynetdicom Storage SCP whose handler returns /
raises / aborts as scripted.

Oracle, over the counters of every response recorded at the peer:
  I1 every Pending: remaining + completed + failed + warning == N
  I2 remaining never increases, completed / failed / warning never decrease
  I3 final: completed + failed + warning <= N
  M  reference walk vlib.scp_harness.model(case) (success -> completed, warning -> warning, failure / exception /
     unsendable or invalid object -> failed, each consuming one of the N): counters of every Pending and of a final
     whose status pynetdicom derives itself; that status == Success iff no failure / warning, 0xA702 iff all N
     failed, 0xB000 otherwise; when pynetdicom built the FailedSOPInstanceUIDList itself its non-empty entries ==
     SOPInstanceUIDs of the failed sub-operations (empty-string placeholders neither required nor forbidden); the
     sub-operations actually attempted == the ones the walk expects
Classifier (explain-by-quirk): when anything above fails, the walk is repeated emulating each subset of the NAMED
quirks (vlib.scp_harness.QUIRKS); if one subset reproduces the observed log exactly the violation key is
C22|quirk|<names> (one key for all faces of that defect), otherwise one key per face:
C22|pending-sum|.., C22|non-monotonic|.., C22|final-sum-exceeds-announced|.., C22|pending-counters|..,
C22|final-status|.., C22|final-counters|.., C22|failed-list|.., C22|suboperations|.., C22|response-count|...
"""
from __future__ import annotations

import itertools

from vlib import scp_harness as H
from vlib.common import sha

PID = "C22"
LEVEL = "exploration"
RULE = ("one C-GET / C-MOVE request per case against a real acceptor (25 request kinds); cases = announced count (0..5, "
        "invalid) x yield sequence (valid / unsendable / invalid objects, None, final statuses of every category, "
        "exceptions, fewer / more results than announced) x C-STORE sub-operation outcomes x move destination x message "
        "id / context id / transfer syntax; distinct = SHA-1 of (DIMSE type, handler behaviour, outcomes consumed, "
        "destination); non-trivial = a valid N >= 1 was announced and at least one counter-carrying response was compared")
ASSUMPTIONS = [
    "reference walk: a sub-operation whose C-STORE response is Success counts as completed, Warning (0xB000/0xB006/"
    "0xB007) as warning, anything else (failure status, unknown status, exception, abort, an instance that cannot be "
    "sent, an object that is not a Dataset) as failed; each consumes one of the N announced",
    "a Pending result with no data set (None / empty Dataset) is skipped silently (no response, no counter change)",
    "finals whose status the handler supplied (Failure / Warning / Cancel / unknown) are only held to I2 / I3 and, when "
    "pynetdicom built the FailedSOPInstanceUIDList itself, to the failed-instances list; their status is C21's subject",
    "invalid / ambiguous announced counts (None, str, list, negative, float, numeric string, > 65535) have no N and are "
    "only counted here (their status is C21's subject)",
    "missing counter elements in a response are read as 0",
]
WORKERS = {"quick": 16, "thorough": 16}
REQUIRE = {"requests": 400, "get_requests": 150, "move_requests": 150, "pending_checked": 250, "finals_checked": 200,
           "computed_finals": 120, "final_success": 25, "final_all_failed": 8, "final_warning": 40,
           "failed_list_checked": 50, "cls_invalid-object": 15, "cls_unsendable-instance": 15,
           "cls_more-than-announced": 15, "cls_fewer-than-announced": 25, "cls_subop-failure": 30,
           "cls_subop-warning": 25, "n_ge_3": 60, "overlapping_retrieval_cases": 5, "overlapping_finals_checked": 8}
MAX_INCONCLUSIVE_FRAC = 0.03


def setup_worker():
    H.setup_worker()


def gen_cases(tier, seed):
    cases = H.gen_cases(tier, seed, "C22", focus="retrieve")
    for i in range(6 if tier == "quick" else 80):
        cases.append({"overlap": True, "i": i, "seed": seed, "svc_kind": ("get", "move")[i % 2]})
    return cases


def _uid_list(v):
    if v is None or v == "":
        return []
    if isinstance(v, str):
        return [str(v)]
    return sorted(str(x) for x in v)


def run_overlapping_retrievals(case):
    """Two retrievals on two associations of ONE SCP overlap in time (each handler waits, after its first result, until the other
    one has produced its first result too); every requestor rejects some of the instances sent to it.  Each final response must list
    exactly the instances whose sub-operation failed on ITS association, and its counters must add up to its own N."""
    import threading
    from pydicom.dataset import Dataset, FileMetaDataset
    from pydicom.uid import ImplicitVRLittleEndian
    from pynetdicom import build_role, evt
    from vlib import harness, taps
    from vlib.common import rng_for
    taps.reset()
    rng = rng_for(case["seed"], PID, "overlap", case["i"])
    CT = "1.2.840.10008.5.1.4.1.1.2"
    GETU = "1.2.840.10008.5.1.4.1.2.1.3"
    n = {"A": rng.choice([2, 3]), "B": rng.choice([2, 3, 4])}
    fail = {k: sorted(rng.sample(range(n[k]), rng.randint(1, n[k]))) for k in n}
    uid = lambda k, j: "1.2.826.0.1.3680043.9.3811.22.%d.%d.%d" % (case["i"] + 1, 1 if k == "A" else 2, j + 1)
    first_done = {"A": threading.Event(), "B": threading.Event()}
    who = {}

    def mk(k, j):
        ds = Dataset()
        ds.SOPClassUID = CT
        ds.SOPInstanceUID = uid(k, j)
        ds.PatientID = k
        ds.file_meta = FileMetaDataset()
        ds.file_meta.TransferSyntaxUID = ImplicitVRLittleEndian
        return ds

    def on_get(event):
        k = "A" if str(event.identifier.PatientID) == "A" else "B"
        yield n[k]
        for j in range(n[k]):
            yield 0xFF00, mk(k, j)
            if j == 0:
                first_done[k].set()
                first_done["B" if k == "A" else "A"].wait(3.0)       # both retrievals are now between sub-operations
    scp = harness.make_ae("C22-SCP", timeouts=(4.0, 4.0, 6.0, 4.0), supported=[GETU, dict(abstract_syntax=CT, scu_role=True, scp_role=True)])
    server, port = harness.start_server(scp, [(evt.EVT_C_GET, on_get)])
    finals, errors = {}, []

    def requestor(k):
        try:
            ae = harness.make_ae("C22-SCU-" + k, timeouts=(4.0, 4.0, 6.0, 4.0), requested=[GETU, CT])

            def on_store(event):
                u = str(event.request.AffectedSOPInstanceUID)
                j = int(u.rsplit(".", 1)[1]) - 1
                return 0xA700 if j in fail[k] else 0x0000
            assoc = ae.associate("127.0.0.1", port, ext_neg=[build_role(CT, scu_role=True, scp_role=True)], evt_handlers=[(evt.EVT_C_STORE, on_store)])
            if not assoc.is_established:
                errors.append("%s not established" % k)
                return
            q = Dataset(); q.QueryRetrieveLevel = "PATIENT"; q.PatientID = k
            for st, ident in assoc.send_c_get(q, GETU):
                if st and st.Status not in (0xFF00, 0xFF01):
                    finals[k] = {"status": st.Status, "failed": getattr(st, "NumberOfFailedSuboperations", None),
                                 "completed": getattr(st, "NumberOfCompletedSuboperations", None),
                                 "list": _uid_list(getattr(ident, "FailedSOPInstanceUIDList", None)) if ident is not None else None}
            if assoc.is_established:
                assoc.release()
            harness.stop_ae(ae, 2.0)
        except Exception as exc:
            errors.append("%s: %r" % (k, exc))
    ths = [threading.Thread(target=requestor, args=(k,), daemon=True) for k in ("A", "B")]
    for t in ths:
        t.start()
    for t in ths:
        t.join(20.0)
    harness.stop_ae(scp, 2.0)
    viol = []
    counters = {"overlapping_retrieval_cases": 1}
    for k in ("A", "B"):
        f = finals.get(k)
        want = sorted(uid(k, j) for j in fail[k])
        if f is None:
            continue
        counters["overlapping_finals_checked"] = counters.get("overlapping_finals_checked", 0) + 1
        if f["list"] != want:
            viol.append({"key": "C22|failed-list|overlapping-retrievals|other-associations-instances-or-missing-own",
                         "detail": "retrieval %s (N=%d, its requestor failed %r): final response lists %r, expected %r; the other retrieval ran at the "
                                   "same time on another association" % (k, n[k], fail[k], f["list"], want)})
        if f["failed"] != len(want) or (f["completed"] or 0) + (f["failed"] or 0) != n[k]:
            viol.append({"key": "C22|final-counters|overlapping-retrievals", "detail": "retrieval %s: final counters %r, N=%d, %d failed" % (k, f, n[k], len(want))})
    inc = None
    if len(finals) < 2:
        inc = "not both retrievals produced a final response: %r %r" % (finals, errors[:2])
    return {"key": sha(["overlap", case["i"], n, fail]), "nontrivial": len(finals) == 2, "sample": {"kind": "overlapping-retrievals", "n": n, "fail": fail, "finals": finals},
            "violations": viol, "counters": counters, "inconclusive": inc}


def _hx(v):
    return "None" if v is None else ("0x%04X" % v if isinstance(v, int) and v >= 0 else repr(v))


def _cnt(m):
    return tuple(int(m[k] or 0) for k in ("rem", "comp", "fail", "warn"))


def _failed_list(m):
    """Non-empty entries of the FailedSOPInstanceUIDList of a decoded response identifier (None if there is none)."""
    if not m["has_data"] or m["data"] is None:
        return None
    for tag, vr, val in m["data"]:
        if tag == 0x00080058:
            vals = val if isinstance(val, list) else [val]
            return sorted(v for v in vals if v)
    return None


def invariants(case, msgs, n):
    """I1-I3 straight from the property text."""
    faces = []
    prev = None
    for i, m in enumerate(msgs):
        if m["status"] is None:
            continue
        cur = _cnt(m)
        pend = m["status"] in H.PENDING
        if pend and sum(cur) != n:
            faces.append(("pending-sum", "Pending response %d has remaining+completed+failed+warning = %d+%d+%d+%d = %d, announced N = %d"
                          % ((i,) + cur + (sum(cur), n))))
        if not pend and cur[1] + cur[2] + cur[3] > n:
            faces.append(("final-sum-exceeds-announced", "final response %d (status %s) reports completed+failed+warning = %d+%d+%d > N = %d"
                          % (i, _hx(m["status"]), cur[1], cur[2], cur[3], n)))
        if prev is not None:
            # remaining is only meaningful in Pending (and Cancel) responses
            if pend and cur[0] > prev[0]:
                faces.append(("non-monotonic", "remaining increases from %d to %d at response %d" % (prev[0], cur[0], i)))
            for j, nm in ((1, "completed"), (2, "failed"), (3, "warning")):
                if cur[j] < prev[j]:
                    faces.append(("non-monotonic", "%s decreases from %d to %d at response %d" % (nm, prev[j], cur[j], i)))
        if pend or prev is None:
            prev = cur if pend else prev
        if pend:
            prev = cur
    return faces


def compare(case, obs, msgs, mdl):
    """Observed log against one variant of the reference walk -> faces."""
    faces = []
    exp = mdl["exp"]
    for i, e in enumerate(exp):
        if i >= len(msgs):
            break
        m = msgs[i]
        if e["status"] is not None and m["status"] not in e["status"]:
            if e.get("computed") and m["status"] not in H.PENDING:
                faces.append(("final-status", "final response %d: expected %s from counters, observed %s (counters completed=%s failed=%s warning=%s)"
                              % (i, "/".join(_hx(x) for x in sorted(e["status"])), _hx(m["status"]), m["comp"], m["fail"], m["warn"])))
            else:
                faces.append(("response-sequence", "response %d: expected %s status %s, observed %s" % (
                    i, e["kind"], "/".join(_hx(x) for x in sorted(e["status"])), _hx(m["status"]))))
            return faces
        if e["counters"] is not None:
            want = e["counters"]
            got = _cnt(m)
            for j, nm in enumerate(("remaining", "completed", "failed", "warning")):
                if want[j] is not None and want[j] != got[j]:
                    faces.append(("pending-counters" if e["kind"] == "pending" else "final-counters",
                                  "response %d (%s %s): %s = %d, reference walk expects %d   (observed %r, expected %r)"
                                  % (i, e["kind"], _hx(m["status"]), nm, got[j], want[j], got, want)))
                    break
        if e["kind"] == "final" and e.get("built_list") and e.get("failed") is not None:
            got = _failed_list(m)
            want = sorted(e["failed"])
            if got is None:
                if want and e.get("computed"):
                    faces.append(("failed-list", "final response %d (status %s) lists no failed instances, expected %r" % (i, _hx(m["status"]), want)))
            elif got != want:
                faces.append(("failed-list", "final response %d (status %s): FailedSOPInstanceUIDList non-empty entries %r, failed sub-operations %r"
                              % (i, _hx(m["status"]), got, want)))
    complete = not mdl["open"] and not mdl["disturbed"] and not H.disturbed_by_handler_or_peer(obs)
    if complete and len(msgs) != len(exp):
        faces.append(("response-count", "%d response(s) observed %s, reference walk expects %d" % (
            len(msgs), [_hx(m["status"]) for m in msgs], len(exp))))
    if complete:
        dimse = H.SERVICES[case["svc"]]["dimse"]
        if dimse == "C-GET":
            seen = [s["sop_inst"] for s in obs["subops"]]
        else:
            seen = [e[3] for e in obs["hlog"] if len(e) > 3 and e[1] == "dest-store"]
        if seen != mdl["subs"] and not (dimse == "C-MOVE" and "subop-abort" in mdl["classes"]):
            faces.append(("suboperations", "sub-operations attempted %r, reference walk expects %r" % (
                [str(s).rsplit(".", 1)[-1] for s in seen], [s.rsplit(".", 1)[-1] for s in mdl["subs"]])))
    return faces


def check(case, obs):
    svc = H.SERVICES[case["svc"]]
    dimse = svc["dimse"]
    c = {"requests": 1, ("get_requests" if dimse == "C-GET" else "move_requests"): 1}
    msgs = [m for m in H.responses_of(obs) if m["field"] == H.RSP_FIELD[dimse]]
    mdl = H.model(case)
    n = mdl["n"]
    if n is None:
        c["no_valid_count"] = 1
        return [], c, False
    c["announced_%d" % min(n, 5)] = 1
    if n >= 3:
        c["n_ge_3"] = 1
    for k in mdl["classes"]:
        c["cls_" + k] = 1
    faces = invariants(case, msgs, n) + compare(case, obs, msgs, mdl)
    compared = 0
    for i, e in enumerate(mdl["exp"][:len(msgs)]):
        if e["kind"] == "pending":
            c["pending_checked"] = c.get("pending_checked", 0) + 1
            compared += 1
        elif e["kind"] == "final":
            c["finals_checked"] = c.get("finals_checked", 0) + 1
            compared += 1
            if e.get("computed"):
                c["computed_finals"] = c.get("computed_finals", 0) + 1
                st = msgs[i]["status"]
                if st == 0:
                    c["final_success"] = c.get("final_success", 0) + 1
                elif st == 0xA702:
                    c["final_all_failed"] = c.get("final_all_failed", 0) + 1
                elif st == 0xB000:
                    c["final_warning"] = c.get("final_warning", 0) + 1
            if e.get("built_list") and e.get("failed") is not None and _failed_list(msgs[i]) is not None:
                c["failed_list_checked"] = c.get("failed_list_checked", 0) + 1
    viol = []
    if faces:
        explained = None
        for r in range(1, len(H.QUIRKS) + 1):
            for qs in itertools.combinations(H.QUIRKS, r):
                if not compare(case, obs, msgs, H.model(case, frozenset(qs))):
                    explained = qs
                    break
            if explained:
                break
        brief = "   [N=%d handler: %s; outcomes %s; dest %s; svc %s]" % (
            n, _brief(case), (case.get("subops") or [])[:len(mdl["subs"]) + 1], case.get("dest"), case["svc"])
        if explained:
            c["explained_by_quirk"] = 1
            viol.append({"key": "C22|quirk|" + "+".join(explained),
                         "detail": "observed log is reproduced exactly by the reference walk with quirk(s) %s; faces: %s%s" % (
                             "+".join(explained), " || ".join(sorted({f[0] + ": " + f[1] for f in faces}))[:700], brief)})
        else:
            seen = set()
            for name, det in faces:
                key = "C22|%s|%s" % (name, dimse)
                if key not in seen:
                    seen.add(key)
                    viol.append({"key": key, "detail": det + brief})
    return viol, c, compared > 0 and n >= 1


def _brief(case):
    from props.C20 import _brief as b
    return b(case)


def run_case(case):
    if case.get("overlap"):
        return run_overlapping_retrievals(case)
    obs = H.run_scenario(case)
    mdl = H.model(case)
    dimse = H.SERVICES[case["svc"]]["dimse"]
    key = sha([dimse, case["h"], (case.get("subops") or [])[:len(mdl["subs"])], case.get("dest")])
    if obs.get("inconclusive"):
        return {"key": key, "nontrivial": False, "sample": {"case": case}, "violations": [], "counters": {},
                "inconclusive": obs["inconclusive"]}
    viol, counters, nontrivial = check(case, obs)
    sample = {"case": case, "end": obs["end"], "announced": mdl["n"],
              "expected": [{"kind": e["kind"], "status": sorted(e["status"]) if e["status"] else None,
                            "counters": e["counters"], "failed": e["failed"]} for e in mdl["exp"]],
              "responses": [{k: m[k] for k in ("status", "rem", "comp", "fail", "warn", "has_data", "data")} for m in obs["msgs"]],
              "suboperations": [{k: s[k] for k in ("sop_inst", "outcome", "mid")} for s in obs["subops"]],
              "dest_log": [e for e in obs["hlog"] if len(e) > 1 and e[1] == "dest-store"]}
    return {"key": key, "nontrivial": nontrivial, "sample": sample, "violations": viol, "counters": counters,
            "inconclusive": None}
