"""C22 - C-GET and C-MOVE sub-operation counters stay consistent.

Same harness as C20 / C21 (vlib.scp_harness), restricted to the C-GET / C-MOVE request kinds (Q/R Patient / Study /
Patient-Study-Only roots, Composite Instance Root, Without Bulk Data, Hanging Protocol, Color Palette, Implant
Template x3, Defined Procedure Protocol, Protocol Approval, Inventory).  The handler announces N sub-operations
(0..5, or invalid), then yields (status, dataset) results: valid instances, instances that cannot be sent (no
SOPInstanceUID / SOPClassUID / transfer syntax), objects that are no Dataset, None / empty, final statuses of every
category, more or fewer results than announced, exceptions.  C-GET sub-operations are answered by the scripted
peer with the scripted outcome {success, warning 0xB000/0xB006/0xB007, failure 0xA700/0xC000/0x0122, unknown
status, abort, silence}; C-MOVE sub-operations go to a REAL second pynetdicom Storage SCP whose handler returns /
raises / aborts as scripted.

Oracle, over the counters of every response recorded at the peer:
  I1 every Pending: remaining + completed + failed + warning == N
  I2 remaining never increases, completed / failed / warning never decrease
  I3 final: completed + failed + warning <= N
  M  reference walk vlib.scp_harness.model(case) (success -> completed, warning -> warning, failure / exception /
     unsendable or invalid object -> failed, each consuming one of the N): counters of every Pending and of a final
     whose status pynetdicom derives itself; that status == Success iff no failure / warning, 0xA702 iff all N
     failed, 0xB000 otherwise; when pynetdicom built the FailedSOPInstanceUIDList itself its non-empty entries ==
     SOPInstanceUIDs of the failed sub-operations (empty-string placeholders neither required nor forbidden); the
     sub-operations actually attempted == the ones the walk expects
Classifier (explain-by-quirk): when anything above fails, the walk is repeated emulating each subset of the NAMED
quirks (vlib.scp_harness.QUIRKS); if one subset reproduces the observed log exactly the violation key is
C22|quirk|<names> (one key for all faces of that defect), otherwise one key per face:
C22|pending-sum|.., C22|non-monotonic|.., C22|final-sum-exceeds-announced|.., C22|pending-counters|..,
C22|final-status|.., C22|final-counters|.., C22|failed-list|.., C22|suboperations|.., C22|response-count|...
"""
from __future__ import annotations

import itertools

from vlib import scp_harness as H
from vlib.common import sha

PID = "C22"
LEVEL = "exploration"
RULE = ("one C-GET / C-MOVE request per case against a real acceptor (25 request kinds); cases = announced count (0..5, "
        "invalid) x yield sequence (valid / unsendable / invalid objects, None, final statuses of every category, "
        "exceptions, fewer / more results than announced) x C-STORE sub-operation outcomes x move destination x message "
        "id / context id / transfer syntax; distinct = SHA-1 of (DIMSE type, handler behaviour, outcomes consumed, "
        "destination); non-trivial = a valid N >= 1 was announced and at least one counter-carrying response was compared")
ASSUMPTIONS = [
    "reference walk: a sub-operation whose C-STORE response is Success counts as completed, Warning (0xB000/0xB006/"
    "0xB007) as warning, anything else (failure status, unknown status, exception, abort, an instance that cannot be "
    "sent, an object that is not a Dataset) as failed; each consumes one of the N announced",
    "a Pending result with no data set (None / empty Dataset) is skipped silently (no response, no counter change)",
    "finals whose status the handler supplied (Failure / Warning / Cancel / unknown) are only held to I2 / I3 and, when "
    "pynetdicom built the FailedSOPInstanceUIDList itself, to the failed-instances list; their status is C21's subject",
    "invalid / ambiguous announced counts (None, str, list, negative, float, numeric string, > 65535) have no N and are "
    "only counted here (their status is C21's subject)",
    "missing counter elements in a response are read as 0",
]
WORKERS = {"quick": 16, "thorough": 16}
REQUIRE = {"requests": 400, "get_requests": 150, "move_requests": 150, "pending_checked": 250, "finals_checked": 200,
           "computed_finals": 120, "final_success": 25, "final_all_failed": 8, "final_warning": 40,
           "failed_list_checked": 50, "cls_invalid-object": 15, "cls_unsendable-instance": 15,
           "cls_more-than-announced": 15, "cls_fewer-than-announced": 25, "cls_subop-failure": 30,
           "cls_subop-warning": 25, "n_ge_3": 60}
MAX_INCONCLUSIVE_FRAC = 0.03


def setup_worker():
    H.setup_worker()


def gen_cases(tier, seed):
    return H.gen_cases(tier, seed, "C22", focus="retrieve")


def _hx(v):
    return "None" if v is None else ("0x%04X" % v if isinstance(v, int) and v >= 0 else repr(v))


def _cnt(m):
    return tuple(int(m[k] or 0) for k in ("rem", "comp", "fail", "warn"))


def _failed_list(m):
    """Non-empty entries of the FailedSOPInstanceUIDList of a decoded response identifier (None if there is none)."""
    if not m["has_data"] or m["data"] is None:
        return None
    for tag, vr, val in m["data"]:
        if tag == 0x00080058:
            vals = val if isinstance(val, list) else [val]
            return sorted(v for v in vals if v)
    return None


def invariants(case, msgs, n):
    """I1-I3 straight from the property text."""
    faces = []
    prev = None
    for i, m in enumerate(msgs):
        if m["status"] is None:
            continue
        cur = _cnt(m)
        pend = m["status"] in H.PENDING
        if pend and sum(cur) != n:
            faces.append(("pending-sum", "Pending response %d has remaining+completed+failed+warning = %d+%d+%d+%d = %d, announced N = %d"
                          % ((i,) + cur + (sum(cur), n))))
        if not pend and cur[1] + cur[2] + cur[3] > n:
            faces.append(("final-sum-exceeds-announced", "final response %d (status %s) reports completed+failed+warning = %d+%d+%d > N = %d"
                          % (i, _hx(m["status"]), cur[1], cur[2], cur[3], n)))
        if prev is not None:
            # remaining is only meaningful in Pending (and Cancel) responses
            if pend and cur[0] > prev[0]:
                faces.append(("non-monotonic", "remaining increases from %d to %d at response %d" % (prev[0], cur[0], i)))
            for j, nm in ((1, "completed"), (2, "failed"), (3, "warning")):
                if cur[j] < prev[j]:
                    faces.append(("non-monotonic", "%s decreases from %d to %d at response %d" % (nm, prev[j], cur[j], i)))
        if pend or prev is None:
            prev = cur if pend else prev
        if pend:
            prev = cur
    return faces


def compare(case, obs, msgs, mdl):
    """Observed log against one variant of the reference walk -> faces."""
    faces = []
    exp = mdl["exp"]
    for i, e in enumerate(exp):
        if i >= len(msgs):
            break
        m = msgs[i]
        if e["status"] is not None and m["status"] not in e["status"]:
            if e.get("computed") and m["status"] not in H.PENDING:
                faces.append(("final-status", "final response %d: expected %s from counters, observed %s (counters completed=%s failed=%s warning=%s)"
                              % (i, "/".join(_hx(x) for x in sorted(e["status"])), _hx(m["status"]), m["comp"], m["fail"], m["warn"])))
            else:
                faces.append(("response-sequence", "response %d: expected %s status %s, observed %s" % (
                    i, e["kind"], "/".join(_hx(x) for x in sorted(e["status"])), _hx(m["status"]))))
            return faces
        if e["counters"] is not None:
            want = e["counters"]
            got = _cnt(m)
            for j, nm in enumerate(("remaining", "completed", "failed", "warning")):
                if want[j] is not None and want[j] != got[j]:
                    faces.append(("pending-counters" if e["kind"] == "pending" else "final-counters",
                                  "response %d (%s %s): %s = %d, reference walk expects %d   (observed %r, expected %r)"
                                  % (i, e["kind"], _hx(m["status"]), nm, got[j], want[j], got, want)))
                    break
        if e["kind"] == "final" and e.get("built_list") and e.get("failed") is not None:
            got = _failed_list(m)
            want = sorted(e["failed"])
            if got is None:
                if want and e.get("computed"):
                    faces.append(("failed-list", "final response %d (status %s) lists no failed instances, expected %r" % (i, _hx(m["status"]), want)))
            elif got != want:
                faces.append(("failed-list", "final response %d (status %s): FailedSOPInstanceUIDList non-empty entries %r, failed sub-operations %r"
                              % (i, _hx(m["status"]), got, want)))
    complete = not mdl["open"] and not mdl["disturbed"] and not H.disturbed_by_handler_or_peer(obs)
    if complete and len(msgs) != len(exp):
        faces.append(("response-count", "%d response(s) observed %s, reference walk expects %d" % (
            len(msgs), [_hx(m["status"]) for m in msgs], len(exp))))
    if complete:
        dimse = H.SERVICES[case["svc"]]["dimse"]
        if dimse == "C-GET":
            seen = [s["sop_inst"] for s in obs["subops"]]
        else:
            seen = [e[3] for e in obs["hlog"] if len(e) > 3 and e[1] == "dest-store"]
        if seen != mdl["subs"] and not (dimse == "C-MOVE" and "subop-abort" in mdl["classes"]):
            faces.append(("suboperations", "sub-operations attempted %r, reference walk expects %r" % (
                [str(s).rsplit(".", 1)[-1] for s in seen], [s.rsplit(".", 1)[-1] for s in mdl["subs"]])))
    return faces


def check(case, obs):
    svc = H.SERVICES[case["svc"]]
    dimse = svc["dimse"]
    c = {"requests": 1, ("get_requests" if dimse == "C-GET" else "move_requests"): 1}
    msgs = [m for m in H.responses_of(obs) if m["field"] == H.RSP_FIELD[dimse]]
    mdl = H.model(case)
    n = mdl["n"]
    if n is None:
        c["no_valid_count"] = 1
        return [], c, False
    c["announced_%d" % min(n, 5)] = 1
    if n >= 3:
        c["n_ge_3"] = 1
    for k in mdl["classes"]:
        c["cls_" + k] = 1
    faces = invariants(case, msgs, n) + compare(case, obs, msgs, mdl)
    compared = 0
    for i, e in enumerate(mdl["exp"][:len(msgs)]):
        if e["kind"] == "pending":
            c["pending_checked"] = c.get("pending_checked", 0) + 1
            compared += 1
        elif e["kind"] == "final":
            c["finals_checked"] = c.get("finals_checked", 0) + 1
            compared += 1
            if e.get("computed"):
                c["computed_finals"] = c.get("computed_finals", 0) + 1
                st = msgs[i]["status"]
                if st == 0:
                    c["final_success"] = c.get("final_success", 0) + 1
                elif st == 0xA702:
                    c["final_all_failed"] = c.get("final_all_failed", 0) + 1
                elif st == 0xB000:
                    c["final_warning"] = c.get("final_warning", 0) + 1
            if e.get("built_list") and e.get("failed") is not None and _failed_list(msgs[i]) is not None:
                c["failed_list_checked"] = c.get("failed_list_checked", 0) + 1
    viol = []
    if faces:
        explained = None
        for r in range(1, len(H.QUIRKS) + 1):
            for qs in itertools.combinations(H.QUIRKS, r):
                if not compare(case, obs, msgs, H.model(case, frozenset(qs))):
                    explained = qs
                    break
            if explained:
                break
        brief = "   [N=%d handler: %s; outcomes %s; dest %s; svc %s]" % (
            n, _brief(case), (case.get("subops") or [])[:len(mdl["subs"]) + 1], case.get("dest"), case["svc"])
        if explained:
            c["explained_by_quirk"] = 1
            viol.append({"key": "C22|quirk|" + "+".join(explained),
                         "detail": "observed log is reproduced exactly by the reference walk with quirk(s) %s; faces: %s%s" % (
                             "+".join(explained), " || ".join(sorted({f[0] + ": " + f[1] for f in faces}))[:700], brief)})
        else:
            seen = set()
            for name, det in faces:
                key = "C22|%s|%s" % (name, dimse)
                if key not in seen:
                    seen.add(key)
                    viol.append({"key": key, "detail": det + brief})
    return viol, c, compared > 0 and n >= 1


def _brief(case):
    from props.C20 import _brief as b
    return b(case)


def run_case(case):
    obs = H.run_scenario(case)
    mdl = H.model(case)
    dimse = H.SERVICES[case["svc"]]["dimse"]
    key = sha([dimse, case["h"], (case.get("subops") or [])[:len(mdl["subs"])], case.get("dest")])
    if obs.get("inconclusive"):
        return {"key": key, "nontrivial": False, "sample": {"case": case}, "violations": [], "counters": {},
                "inconclusive": obs["inconclusive"]}
    viol, counters, nontrivial = check(case, obs)
    sample = {"case": case, "end": obs["end"], "announced": mdl["n"],
              "expected": [{"kind": e["kind"], "status": sorted(e["status"]) if e["status"] else None,
                            "counters": e["counters"], "failed": e["failed"]} for e in mdl["exp"]],
              "responses": [{k: m[k] for k in ("status", "rem", "comp", "fail", "warn", "has_data", "data")} for m in obs["msgs"]],
              "suboperations": [{k: s[k] for k in ("sop_inst", "outcome", "mid")} for s in obs["subops"]],
              "dest_log": [e for e in obs["hlog"] if len(e) > 1 and e[1] == "dest-store"]}
    return {"key": key, "nontrivial": nontrivial, "sample": sample, "violations": viol, "counters": counters,
            "inconclusive": None}
