"""C20 - each service request gets exactly one final response with its message ID.

One scripted DIMSE request (vlib.scp_harness: raw-socket peer speaking through the reference codecs) is sent to a
REAL pynetdicom acceptor whose bound handler behaves as the case description says (returns / yields any values,
raises before / between / after yields, too few / too many results, aborts or releases the association).  The
peer records EVERY message the acceptor sends until 0.35 s of silence after the final response (plus a following
C-ECHO as liveness control) or until the association ends.  Offline checker over that log:

  R1 every message is a response of the request's DIMSE type,
  R2 carries the request's MessageID as MessageIDBeingRespondedTo  (request ids include 0 and 65535),
  R3 travels on the request's presentation context id              (context ids are drawn per case from 1..255),
  R4 Pending* (0xFF00/0xFF01 - PS3.7) then exactly one final; the only non-Pending status allowed before the final
     is 0xB001 on a Repository Query context; nothing for the request after the final,
  R5 the final may be missing only if the handler or the scripted peer aborted / released the association first
     (decided from the handler log and the peer log, i.e. observed, not assumed).

Mechanism keys:  C20|after-final|<DIMSE>|first=<category>|then=...
                 C20|no-final|<cause>|<DIMSE>|scp-raised|<Exc>@<function>      C20|no-final|<cause>|<DIMSE>|silent|<service family>
                     cause = documented-behaviour | undocumented-return-shape | undocumented-yield-shape |
                             status-out-of-range   (semantic class of the handler result the SCP was processing last,
                             from the handler log; never an input value)
                 C20|wrong-message-id|<differs|missing|copied-from-status-dataset>|<DIMSE>   C20|wrong-context|<DIMSE>
                 C20|wrong-message-type|<DIMSE>|<type>
"""
from __future__ import annotations

from vlib import scp_harness as H
from vlib.common import sha

PID = "C20"
LEVEL = "exploration"
RULE = ("one DIMSE request per case against a real acceptor; cases = (service/SOP class out of %d request kinds covering "
        "every SCP implementation in service_class.py / service_class_n.py) x handler behaviour from the grammar in "
        "vlib/scp_harness.py (return / yield sequences of length 0..6 of (status, dataset), statuses known per category / "
        "unknown / out of range / Dataset with and without Status / other types, raise before-between-after yields, "
        "wrong-shaped results, abort / release, announced sub-operation counts 0..5 and invalid, C-STORE sub-operation "
        "outcomes, move destinations) x message id x context id x transfer syntax; distinct = SHA-1 of (service, handler "
        "behaviour, sub-operation outcomes, destination); non-trivial = the handler does something else than returning "
        "one plain Success" % len(H.SERVICES))
ASSUMPTIONS = [
    "Pending = status 0xFF00 / 0xFF01 (PS3.7); every other status ends the operation for a requestor, except 0xB001 "
    "on a Repository Query context (the exception pynetdicom's own SCU implements)",
    "observation window: 0.35 s of silence after the final response, then one C-ECHO round trip; a duplicate or late "
    "response sent later than that is not seen",
    "a missing final response is excused only when the handler log shows event.assoc.abort()/release() or the "
    "scripted peer aborted / stayed silent on a C-STORE sub-operation",
    "C-STORE sub-operation requests of C-GET are requests of the acceptor, not responses; they are answered and ignored here",
]
WORKERS = {"quick": 16, "thorough": 16}
REQUIRE = {"requests": 400, "responses_checked": 500, "finals_seen": 300, "pending_seen": 120,
           "handler_raised": 20, "handler_raised_base_exception": 5, "msgid_0_or_65535": 30, "gen_requests": 150, "n_requests": 60,
           "no_final_excused": 5, "multi_response_requests": 60, "rq_C-ECHO": 5, "rq_C-STORE": 5, "rq_C-FIND": 100,
           "rq_C-GET": 40, "rq_C-MOVE": 40, "rq_N-GET": 8, "rq_N-SET": 8, "rq_N-ACTION": 8, "rq_N-CREATE": 8,
           "rq_N-DELETE": 5, "rq_N-EVENT-REPORT": 8}
MAX_INCONCLUSIVE_FRAC = 0.03


def setup_worker():
    H.setup_worker()


def gen_cases(tier, seed):
    return H.gen_cases(tier, seed, "C20-21")


def check(case, obs):
    """-> (violations, counters)"""
    svc = H.SERVICES[case["svc"]]
    dimse = svc["dimse"]
    viol = []
    c = {"requests": 1, "rq_" + dimse: 1}
    msgs = H.responses_of(obs)
    cx_echo, cx_svc, cx_store = case["cx"]
    if svc["uid"] == H.VERIF:
        cx_svc = cx_echo
    elif svc["uid"] == H.CT:
        cx_svc = cx_store
    c["responses_checked"] = len(msgs)
    if dimse in H.GEN_DIMSE:
        c["gen_requests"] = 1
    elif dimse.startswith("N-"):
        c["n_requests"] = 1
    if case["msg_id"] in (0, 65535):
        c["msgid_0_or_65535"] = 1
    if H.hlog_has(obs, "raise"):
        c["handler_raised"] = 1
        if case.get("exc_class"):
            c["handler_raised_base_exception"] = 1
    if len(msgs) > 1:
        c["multi_response_requests"] = 1
    first_final = None
    seen_keys = set()

    def add(key, detail):
        if key not in seen_keys:
            seen_keys.add(key)
            viol.append({"key": key, "detail": detail})

    for i, m in enumerate(msgs):
        if m["field"] != H.RSP_FIELD[dimse]:
            add("C20|wrong-message-type|%s|%s" % (dimse, m["name"]),
                "message %d for a %s request is a %s" % (i, dimse, m["name"]))
            continue
        if m["mid_rsp"] != case["msg_id"]:
            how = "missing" if m["mid_rsp"] is None else "differs"
            if _status_ds_sets_msgid(case):
                how = "copied-from-status-dataset"
            add("C20|wrong-message-id|%s|%s" % (how, dimse),
                "response %d (status %s) carries MessageIDBeingRespondedTo=%r, request MessageID=%d"
                % (i, _hx(m["status"]), m["mid_rsp"], case["msg_id"]))
        if m["ctx"] != cx_svc:
            add("C20|wrong-context|%s" % dimse,
                "response %d travels on context %r, request was sent on %d" % (i, m["ctx"], cx_svc))
        st = m["status"]
        if st is None:
            add("C20|no-status|%s" % dimse, "response %d carries no Status" % i)
            continue
        if first_final is None:
            if H.is_final_status(case["svc"], st):
                first_final = i
                c["finals_seen"] = 1
            else:
                c["pending_seen"] = c.get("pending_seen", 0) + 1
                if st == 0xB001:
                    c["repository_b001_nonfinal"] = c.get("repository_b001_nonfinal", 0) + 1
    if first_final is not None and first_final < len(msgs) - 1:
        after = msgs[first_final + 1:]
        cats = []
        for m in after:
            cat = H.category(m["status"]) if m["status"] is not None else "none"
            if cat not in cats:
                cats.append(cat)
        f = msgs[first_final]
        fcat = H.category(f["status"])
        dup = (len(after) == 1 and after[0]["status"] == f["status"])
        key = "C20|after-final|%s|first=%s|%s" % (dimse, fcat, "duplicate-final" if dup else "then=" + "+".join(cats))
        add(key, "final response %d has status %s (%s) but %d more response(s) follow: %s   [handler: %s]"
            % (first_final, _hx(f["status"]), fcat, len(after), [_hx(m["status"]) for m in after], _brief(case)))
        c["after_final_msgs"] = len(after)
    if first_final is None:
        who = H.disturbed_by_handler_or_peer(obs)
        if who:
            c["no_final_excused"] = 1
            c["no_final_excused_" + who] = 1
        else:
            excs = obs.get("scp_excs") or []
            send_exc = [r for r in obs.get("sent_tap") or [] if r.get("exc") and r.get("acceptor")]
            cause = H.last_result_class(case, obs)
            if not excs and obs.get("end") == "timeout" and (obs.get("live") or {}).get("end") != "answered":
                # nothing within the watchdog and the acceptor does not answer the control C-ECHO either: machine load
                return viol, c, "no response within %.0f s and liveness C-ECHO unanswered (load?)" % H.WAIT
            if excs:
                e = excs[0]
                key = "C20|no-final|%s|%s|scp-raised|%s@%s" % (cause, dimse, e["type"], e["where"])
                det = "no final response; %s escaped ServiceClass.SCP from %s(): %s; association end=%s" % (
                    e["type"], e["where"], e["text"], obs.get("end"))
            else:
                key = "C20|no-final|%s|%s|silent|%s" % (cause, dimse, svc["family"])
                det = "no final response and no exception seen; association end=%s live=%r" % (obs.get("end"), obs.get("live"))
            add(key, det + "   [handler: %s; %d response(s) before: %s]" % (
                _brief(case), len(msgs), [_hx(m["status"]) for m in msgs]))
            if send_exc:
                c["send_msg_raised"] = 1
    else:
        live = obs.get("live") or {}
        if live.get("end") == "answered":
            c["liveness_echo_answered"] = 1
    return viol, c, None


def _status_ds_sets_msgid(case):
    h = case["h"]
    specs = [h.get("s")] if h["kind"] == "ret" else [st.get("s") for st in h.get("steps", [])]
    return any(sp and sp.get("t") == "ds" and "MessageIDBeingRespondedTo" in (sp.get("x") or {}) for sp in specs)


def _hx(v):
    return "None" if v is None else ("0x%04X" % v if isinstance(v, int) and v >= 0 else repr(v))


def _brief(case):
    h = case["h"]
    if h["kind"] != "gen":
        return str({k: v for k, v in h.items()})[:200]
    out = []
    for s in h["steps"]:
        if "s" in s:
            st = s["s"]
            out.append("(%s,%s)" % (_hx(st["v"]) if "v" in st else st["t"], s["d"]["t"]))
        else:
            out.append(str(s))
    return "yield " + " ".join(out) + (" then raise" if h.get("end") == "raise" else "")


def run_case(case):
    obs = H.run_scenario(case)
    key = sha([case["svc"], case["h"], case.get("subops"), case.get("dest")])
    h = case["h"]
    trivial = h["kind"] == "ret" and h["s"] == {"t": "int", "v": 0}
    if obs.get("inconclusive"):
        return {"key": key, "nontrivial": False, "sample": {"case": case}, "violations": [], "counters": {},
                "inconclusive": obs["inconclusive"]}
    viol, counters, inconclusive = check(case, obs)
    sample = {"case": case, "end": obs["end"], "responses": [
        {k: m[k] for k in ("t", "ctx", "name", "status", "mid_rsp", "rem", "comp", "fail", "warn", "after_final")}
        for m in obs["msgs"]], "hlog": obs["hlog"], "live": obs["live"], "scp_excs": obs.get("scp_excs")}
    return {"key": key, "nontrivial": not trivial, "sample": sample, "violations": viol, "counters": counters,
            "inconclusive": inconclusive}


def extra_evidence(tier, results):
    ctx = set()
    svcs = set()
    for r in results.values():
        cs = (r.get("sample") or {}).get("case") or {}
        if cs.get("svc"):
            svcs.add(cs["svc"])
            ctx.add(cs["cx"][1])
    return {"distinct_context_ids_used": len(ctx), "request_kinds_exercised": len(svcs),
            "request_kinds_total": len(H.SERVICES)}
