"""C08 — no peer behaviour keeps pynetdicom blocked past its configured timeouts.

Fault enumeration: role x protocol phase x cut offset x stall style.  The scripted peer keeps the TCP connection open
but stops (silent / partial PDU then silent / dribbling one byte at a time) at the chosen point - or, the opposite, ignores an
A-ABORT it provoked or was sent and keeps streaming complete PDUs; all four pynetdicom timeouts are 0.5 s.  Oracle (bounded progress): within 10 x the sum of the relevant timeouts every user call has
returned and no association / provider thread of the local side is alive and its raw socket is closed.  A watchdog
firing is a violation only if two stack snapshots 1 s apart show the same thread parked at the same blocking call.
"""
import threading
import time

from vlib import cmdset, harness, peer as vpeer, ps38, taps
from vlib.common import rng_for, sha

PID = "C08"
LEVEL = "fault_enumeration"
RULE = ("(role, phase, cut class, stall style) enumerated; phases: before RQ/AC, inside RQ/AC, established idle, mid command set, "
        "between command and data set, mid data set (PDU boundary and inside a PDU), request without response, release RQ without RP, "
        "mid RELEASE-RP; cut offsets 0,1,5,6,7,len-1,random; styles silent / partial-then-silent / dribble; distinct = (role, phase, "
        "cut class, style); non-trivial = the stall point was reached (bytes delivered as planned)")
ASSUMPTIONS = ["all four timeouts 0.5 s; watchdog 9 s after the stall began (>= 10 x the relevant timeout plus margin)",
               "the peer never closes the TCP connection during the observation window"]
WORKERS = {"quick": 16, "thorough": 16}
REQUIRE = {"scenarios": 40, "acceptor_scenarios": 20, "requestor_scenarios": 15, "stall_points_reached": 40, "stream_scenarios": 10, "skewed_timeout_scenarios": 10, "tls_scenarios": 2}
VER = "1.2.840.10008.1.1"
CT = "1.2.840.10008.5.1.4.1.1.2"
T = 0.5
WATCHDOG = 9.0


def setup_worker():
    harness.quiet_logging()
    taps.install()


BIG = 7.0          # an unrelated timeout in the skewed variants
SOFT = 4.5         # ... by when everything must be over there (relevant timeouts: 0.5 s each, at most two of them in a row)


def timeouts_for(case):
    """(acse, dimse, network, connection).  Skewed variants keep only the timeouts that govern the phase at 0.5 s."""
    if not case.get("skew"):
        return (T, T, T, T)
    ph = case["phase"]
    if case["role"] == "acceptor":
        if ph in ("before-rq",) or ph.startswith("stream-"):
            rel = {"acse"}
        else:
            rel = {"network", "acse"}          # idle timer, then ARTIM after the A-ABORT
    else:
        if ph == "tls-handshake-silent":
            rel = {"connection"}               # TCP connect + TLS handshake run under the connection timeout
        elif ph in ("before-ac", "release-no-rp"):
            rel = {"acse"}
        else:
            rel = {"dimse", "acse"}            # DIMSE timeout, then ARTIM after the A-ABORT
    return tuple(T if k in rel else BIG for k in ("acse", "dimse", "network", "connection"))


ACC_PHASES = ["before-rq", "inside-rq", "idle", "mid-command", "between-command-and-dataset", "mid-dataset-pdu-boundary",
              "mid-dataset-inside-pdu", "inside-release-rq", "inside-abort", "second-message-mid-command"]
# the peer never goes quiet: after provoking (or being sent) an A-ABORT it ignores it and keeps streaming complete PDUs
ACC_STREAM_PHASES = ["stream-after-request-on-unaccepted-context", "stream-after-unrecognised-pdu", "stream-after-undecodable-pdu", "stream-after-release-rq",
                     "stream-while-application-aborts"]
REQ_PHASES = ["tls-handshake-silent", "abort-racing-the-call", "before-ac", "inside-ac", "echo-no-response", "echo-response-inside-pdu", "find-pending-then-silence",
              "find-response-mid-dataset", "release-no-rp", "release-rp-inside-pdu", "store-no-response"]


def gen_cases(tier, seed):
    rng = rng_for(seed, PID, "gen")
    cases = []
    for ph in ACC_PHASES:
        for style in ("silent", "dribble"):
            cuts = ["1", "5", "6", "7", "len-1", "mid"] if "inside" in ph or "mid-command" in ph or "inside-pdu" in ph else ["-"]
            if tier == "quick":
                cuts = cuts[:1] + cuts[-2:] if len(cuts) > 1 else cuts
            for c in cuts:
                if style == "dribble" and c == "-":
                    continue
                cases.append({"role": "acceptor", "phase": ph, "cut": c, "style": style})
    for ph in ACC_STREAM_PHASES:
        # "stream": back-to-back PDUs (in Sta13 pynetdicom closes at once when nothing is pending, so only a peer that never pauses
        # makes the ARTIM expiry the thing that ends it); "stream-paced": one PDU every 2 ms
        cases.append({"role": "acceptor", "phase": ph, "cut": "-", "style": "stream"})
        cases.append({"role": "acceptor", "phase": ph, "cut": "-", "style": "stream-paced"})
    for ph in REQ_PHASES:
        for style in ("silent", "dribble"):
            cuts = ["1", "5", "6", "7", "len-1", "mid"] if "inside" in ph or "mid-dataset" in ph else ["-"]
            if tier == "quick":
                cuts = cuts[:1] + cuts[-2:] if len(cuts) > 1 else cuts
            for c in cuts:
                if style == "dribble" and c == "-":
                    continue
                cases.append({"role": "requestor", "phase": ph, "cut": c, "style": style})
    cases.append({"role": "acceptor", "phase": "tls-server-handshake-stalled", "cut": "-", "style": "silent"})
    cases.append({"role": "acceptor", "phase": "tls-server-handshake-stalled", "cut": "-", "style": "dribble"})
    # skewed variants of the PDU-boundary stalls: only the timeouts that govern the phase are short
    for c in list(cases):
        # (not for the unrecognised-PDU stream: how long that one takes is governed by the known desync defect - the provider reads
        #  the following bytes as one huge PDU body at loopback speed - not by any timeout)
        if c["cut"] == "-" and c["style"] in ("silent", "stream") and c["phase"] not in ("tls-server-handshake-stalled", "stream-after-unrecognised-pdu"):
            cases.append(dict(c, skew=True))
    return cases


def cut_offset(cut, n, rng):
    if cut == "-":
        return n
    if cut == "len-1":
        return n - 1
    if cut == "mid":
        return max(1, n // 2)
    return min(int(cut), n - 1)


class Staller:
    """Sends `data[:k]`, then stalls: silent, or dribbles one byte every 0.2 s (never completing within the window)."""

    def __init__(self, p, style):
        self.p = p
        self.style = style
        self.stop = False
        self.thread = None

    def stall(self, data, k):
        self.p.send_raw(data[:k])
        if self.style == "dribble" and k < len(data) - 1:
            rest = data[k:len(data) - 1]     # never sends the last byte

            def run():
                for i in range(len(rest)):
                    if self.stop:
                        return
                    time.sleep(0.2)
                    try:
                        self.p.send_raw(rest[i:i + 1])
                    except OSError:
                        return
            self.thread = threading.Thread(target=run, daemon=True)
            self.thread.start()

    def stream(self, pdu_bytes):
        """Keeps sending complete PDUs (never reads, never closes) until end() or the connection breaks."""
        self.sent = 0
        period = 0.002 if self.style == "stream-paced" else 0
        self.p.sock.settimeout(None)      # a full TCP window blocks the sender, it never cuts a PDU short

        batch = pdu_bytes if period else pdu_bytes * 2000      # unpaced: the receive buffer is never empty

        def run():
            while not self.stop:
                try:
                    self.p.sock.sendall(batch)
                    self.sent += 1
                except OSError:
                    return
                if period:
                    time.sleep(period)
        self.thread = threading.Thread(target=run, daemon=True)
        self.thread.start()

    def end(self):
        self.stop = True
        if self.style.startswith("stream"):
            try:
                self.p.sock.shutdown(2)     # unblocks a sendall() that waits for window space
            except OSError:
                pass


def dataset_bytes(n=3000):
    import struct

    def el(g, e, v):
        if len(v) % 2:
            v += b"\0"
        return struct.pack("<HHI", g, e, len(v)) + v
    return el(8, 0x16, CT.encode()) + el(8, 0x18, b"1.2.3.4") + el(0x7FE0, 0x10, bytes(n))


def liveness_verdict(viol, role, tag, t_stall, user_thread=None, skew=False):
    """Wait for the watchdog, then judge threads/sockets of the LOCAL (pynetdicom) side."""
    deadline = t_stall + WATCHDOG
    while time.time() < deadline:
        alive = [(a, al, dl, s) for (a, al, dl, s) in taps.assoc_threads() if al or dl]
        if not alive and (user_thread is None or not user_thread.is_alive()):
            break
        time.sleep(0.05)
    waited = time.time() - t_stall
    alive = [(a, al, dl, s) for (a, al, dl, s) in taps.assoc_threads() if al or dl]
    inconclusive = None
    if alive or (user_thread is not None and user_thread.is_alive()):
        parked = []
        for (a, al, dl, s) in alive:
            for th in ([a] if al else []) + ([a.dul] if dl else []):
                same, stack = taps.stable_block(th, 1.0)
                parked.append((th.name.split("@")[0].split(" ")[0], s, same, stack[-2:]))
        if user_thread is not None and user_thread.is_alive():
            same, stack = taps.stable_block(user_thread, 1.0)
            parked.append(("user-call", "-", same, stack[-2:]))
        if any(x[2] for x in parked):
            w = next(x for x in parked if x[2])
            where = w[3][-1].split(":")[1] if w[3] else "?"
            cls = "pdu-boundary" if "|cut--|" in tag else "inside-pdu"
            provider_in_recv = any(x[2] and x[3] and x[3][-1].split(":")[1] == "recv" and "transport.py" in " ".join(x[3]) for x in parked)
            if tag.startswith("stream-after-unrecognised-pdu|") and provider_in_recv:
                # the body of the unrecognised PDU is not consumed, so the provider reads the following bytes as a PDU header
                # with an arbitrary length and sits in the same deadline-less body read as the inside-pdu stalls
                cls = "desync-after-unrecognised-pdu"
            viol.append({"key": "blocked-past-timeouts|%s|%s|%s|%s" % (cls, role, tag, where),
                         "detail": "%.1f s after the peer stalled (timeouts %.1f s): %r" % (waited, T, parked)})
        else:
            inconclusive = "threads alive after the watchdog but not parked: %r" % parked
    else:
        if skew and waited > SOFT:
            viol.append({"key": "ended-only-after-an-unrelated-timeout|%s|%s" % (role, tag),
                         "detail": "everything ended %.1f s after the peer stalled although the timeouts that govern this phase are %.1f s "
                                   "(the others are %.1f s)" % (waited, T, BIG)})
        if taps.open_sockets():
            cls = "pdu-boundary" if "|cut--|" in tag else "inside-pdu"
            viol.append({"key": "socket-left-open|%s|%s|%s" % (cls, role, tag), "detail": "threads ended but %d raw socket(s) still open: %r" % (
                len(taps.open_sockets()), [(s_.role, s_.closed, s_.shutdown_called) for s_ in taps.open_sockets()])})
    return waited, inconclusive


def _crash_observations(viol):
    local = ("Evt1", "Evt7", "Evt8", "Evt9", "Evt11", "Evt14", "Evt15")
    invalid = False
    for pr in taps.State.fsm_problems:
        if pr["kind"] == "invalid-event":
            invalid = True
            ev = pr["pair"].split("@")[0]
            viol.append({"key": "invalid-event|%s|%s" % ("local-primitive" if ev in local else "other", pr["pair"]), "detail": "%r" % pr})
        else:
            viol.append({"key": "fsm|%s|%s" % (pr["kind"], pr.get("action")), "detail": "%r" % pr})
    for e in taps.State.excs:
        if e["type"] == "InvalidEventError" and invalid:
            continue
        viol.append({"key": "exception-escaped|%s|%s" % (e["type"], e["where"]), "detail": "%r" % e})


def run_acceptor(case, counters):
    from pynetdicom import evt
    taps.reset()
    rng = rng_for(0, PID, case["phase"], case["cut"], case["style"])
    viol = []
    ae = harness.make_ae(timeouts=timeouts_for(case), supported=[VER, CT])
    server, port = harness.start_server(ae, [(evt.EVT_C_STORE, lambda e: 0x0000), (evt.EVT_C_ECHO, lambda e: 0x0000)])
    p = vpeer.Peer.connect(port)
    st = Staller(p, case["style"])
    ph = case["phase"]
    tag = "%s|%s|%s" % (ph, "cut-" + case["cut"], case["style"] + ("+skew" if case.get("skew") else ""))
    try:
        rq = ps38.encode(ps38.make_rq(pcs=[{"id": 1, "abs": VER, "ts": [ps38.IMPLICIT_LE]}, {"id": 3, "abs": CT, "ts": [ps38.IMPLICIT_LE]}], maxlen=1024))
        reached = False
        if ph == "before-rq":
            reached = True
        elif ph == "inside-rq":
            st.stall(rq, cut_offset(case["cut"], len(rq), rng)); reached = True
        else:
            p.send_raw(rq)
            ac = p.recv_pdu(3.0)
            if not ac or ac.get("type") != "AC":
                return [], {"setup": "no AC"}, "setup failed"
            p.max_len_peer = 1024
            store_cmd = cmdset.make("C-STORE-RQ", AffectedSOPClassUID=CT, MessageID=5, Priority=0, AffectedSOPInstanceUID="1.2.3.4", CommandDataSetType=0)
            pdus = [ps38.encode(v) for v in p.dimse_pdus(3, store_cmd, dataset_bytes(3000), max_len=1024)]
            if ph == "idle":
                reached = True
            elif ph == "mid-command":
                st.stall(pdus[0], cut_offset(case["cut"], len(pdus[0]), rng)); reached = True
            elif ph == "between-command-and-dataset":
                p.send_raw(pdus[0]); reached = True
            elif ph == "mid-dataset-pdu-boundary":
                p.send_raw(b"".join(pdus[:2])); reached = True
            elif ph == "mid-dataset-inside-pdu":
                p.send_raw(pdus[0]); st.stall(pdus[1], cut_offset(case["cut"], len(pdus[1]), rng)); reached = True
            elif ph == "inside-release-rq":
                b = ps38.encode({"type": "RELRQ"}); st.stall(b, cut_offset(case["cut"], len(b), rng)); reached = True
            elif ph == "inside-abort":
                b = ps38.encode({"type": "ABORT", "source": 0, "reason": 0}); st.stall(b, cut_offset(case["cut"], len(b), rng)); reached = True
            elif ph in ACC_STREAM_PHASES:
                echo = b"".join(ps38.encode(v) for v in p.dimse_pdus(1, cmdset.c_echo_rq(9)))
                if ph == "stream-after-request-on-unaccepted-context":
                    p.send_raw(b"".join(ps38.encode(v) for v in p.dimse_pdus(7, cmdset.c_echo_rq(1))))
                elif ph == "stream-after-unrecognised-pdu":
                    p.send_raw(b"\x09\x00\x00\x00\x00\x02\x00\x00")
                elif ph == "stream-after-undecodable-pdu":
                    # recognised type, body fully framed but not decodable (A-ASSOCIATE-RJ cut to 2 body bytes): Evt19 with the stream still aligned
                    p.send_raw(b"\x03\x00\x00\x00\x00\x02\x00\x01")
                elif ph == "stream-after-release-rq":
                    p.send_raw(ps38.encode({"type": "RELRQ"}))
                else:
                    harness.wait_for(lambda: bool(harness.acceptor_assocs()), 2.0)
                    acc = harness.acceptor_assocs()[0]
                    st.stream(echo)
                    time.sleep(0.05)
                    threading.Thread(target=lambda: acc.abort(), daemon=True).start()
                if st.thread is None:
                    st.stream(echo)
                reached = True
                counters["stream_scenarios"] = counters.get("stream_scenarios", 0) + 1
            elif ph == "second-message-mid-command":
                p.send_dimse(1, cmdset.c_echo_rq(1)); p.recv_dimse(3.0)
                b = ps38.encode(p.dimse_pdus(1, cmdset.c_echo_rq(2))[0]); st.stall(b, cut_offset(case["cut"], len(b), rng)); reached = True
        t_stall = time.time()
        if reached:
            counters["stall_points_reached"] = counters.get("stall_points_reached", 0) + 1
        harness.wait_for(lambda: bool(harness.acceptor_assocs()), 1.0)
        waited, inc = liveness_verdict(viol, "acceptor", tag, t_stall, skew=bool(case.get("skew")))
        _crash_observations(viol)
        obs = {"phase": ph, "waited_s": round(waited, 2), "fsm": [(f["before"], f["event"]) for f in taps.State.fsm][-5:],
               "peer_saw": [x.get("type") for x in p.drain(quiet=0.05, limit=0.3)]}
        return viol, obs, inc
    finally:
        st.end()
        p.close()
        harness.stop_ae(ae, 2.0)


def run_requestor(case, counters):
    from pydicom.dataset import Dataset
    taps.reset()
    rng = rng_for(0, PID, case["phase"], case["cut"], case["style"])
    viol = []
    ph = case["phase"]
    tag = "%s|%s|%s" % (ph, "cut-" + case["cut"], case["style"] + ("+skew" if case.get("skew") else ""))
    ae = harness.make_ae(title="SCU", timeouts=timeouts_for(case), requested=[VER, CT, "1.2.840.10008.5.1.4.1.2.1.1"])
    lst = vpeer.Listener()
    stall_at = {"t": None}
    res = {}
    stallers = []
    race_go = threading.Event()

    def script():
        q = lst.accept(5.0)
        if q is None:
            return
        st = Staller(q, case["style"]); stallers.append(st)
        try:
            if ph == "tls-handshake-silent":
                # plain TCP listener that never answers the ClientHello
                stall_at["t"] = time.time(); time.sleep(WATCHDOG + 3); return
            rq = q.recv_pdu(3.0)
            if not rq or rq.get("type") != "RQ":
                return
            ac = ps38.encode(ps38.make_ac(rq))
            if ph == "before-ac":
                stall_at["t"] = time.time(); time.sleep(WATCHDOG + 3); return
            if ph == "inside-ac":
                st.stall(ac, cut_offset(case["cut"], len(ac), rng)); stall_at["t"] = time.time(); time.sleep(WATCHDOG + 3); return
            q.send_raw(ac)
            if ph == "abort-racing-the-call":
                # A-ABORT while the user's send_c_echo() is past its is_established check; the TCP connection stays open
                if race_go.wait(5.0):
                    q.send_pdu({"type": "ABORT", "source": 0, "reason": 0})
                    stall_at["t"] = time.time(); time.sleep(WATCHDOG + 3)
                return
            m = q.recv_dimse(4.0)
            if not m or m.get("type") != "DIMSE":
                if ph.startswith("release") and m and m.get("type") == "RELRQ":
                    pass
                else:
                    return
            if ph in ("echo-no-response", "store-no-response"):
                stall_at["t"] = time.time(); time.sleep(WATCHDOG + 3); return
            if ph == "echo-response-inside-pdu":
                b = ps38.encode(q.dimse_pdus(m["ctx"], cmdset.c_echo_rsp(m["cmd"].get("MessageID", 1)))[0])
                st.stall(b, cut_offset(case["cut"], len(b), rng)); stall_at["t"] = time.time(); time.sleep(WATCHDOG + 3); return
            if ph.startswith("find"):
                kw = dict(AffectedSOPClassUID=m["cmd"].get("AffectedSOPClassUID"), MessageIDBeingRespondedTo=m["cmd"].get("MessageID", 1), Status=0xFF00, CommandDataSetType=0)
                ident = b"\x08\x00\x52\x00\x08\x00\x00\x00PATIENT " + b"\x10\x00\x10\x00\x04\x00\x00\x00ABCD"
                pd = [ps38.encode(v) for v in q.dimse_pdus(m["ctx"], cmdset.make("C-FIND-RSP", **kw), ident)]
                if ph == "find-pending-then-silence":
                    q.send_raw(b"".join(pd)); stall_at["t"] = time.time(); time.sleep(WATCHDOG + 3); return
                q.send_raw(pd[0]); st.stall(pd[1], cut_offset(case["cut"], len(pd[1]), rng)); stall_at["t"] = time.time(); time.sleep(WATCHDOG + 3); return
            if ph.startswith("release"):
                # answer the echo, then wait for the release request
                q.send_dimse(m["ctx"], cmdset.c_echo_rsp(m["cmd"].get("MessageID", 1)))
                r = q.recv_pdu(4.0)
                if not r or r.get("type") != "RELRQ":
                    return
                if ph == "release-no-rp":
                    stall_at["t"] = time.time(); time.sleep(WATCHDOG + 3); return
                b = ps38.encode({"type": "RELRP"})
                st.stall(b, cut_offset(case["cut"], len(b), rng)); stall_at["t"] = time.time(); time.sleep(WATCHDOG + 3); return
        finally:
            st.end()
            q.close()

    th = threading.Thread(target=script, daemon=True)
    th.start()

    def user():
        try:
            kw = {}
            if ph == "tls-handshake-silent":
                import ssl
                cx = ssl.SSLContext(ssl.PROTOCOL_TLS_CLIENT)
                cx.check_hostname = False
                cx.verify_mode = ssl.CERT_NONE
                kw["tls_args"] = (cx, None)
            a = ae.associate("127.0.0.1", lst.port, **kw)
            res["established"] = a.is_established
            if not a.is_established:
                return
            if ph == "abort-racing-the-call":
                orig_gvc = a._get_valid_context

                def held(*a_, **k_):
                    race_go.set()
                    t_end = time.time() + 3.0
                    while a.is_alive() and time.time() < t_end:
                        time.sleep(0.01)
                    return orig_gvc(*a_, **k_)
                a._get_valid_context = held
            if ph.startswith("find"):
                ds = Dataset(); ds.QueryRetrieveLevel = "PATIENT"; ds.PatientName = "*"
                res["find"] = [getattr(s, "Status", None) for s, _ in a.send_c_find(ds, "1.2.840.10008.5.1.4.1.2.1.1")]
            elif ph == "store-no-response":
                from pydicom.dataset import FileMetaDataset
                from pydicom.uid import ImplicitVRLittleEndian
                ds = Dataset(); ds.SOPClassUID = CT; ds.SOPInstanceUID = "1.2.3.4"; ds.PatientName = "X"
                ds.file_meta = FileMetaDataset(); ds.file_meta.TransferSyntaxUID = ImplicitVRLittleEndian
                res["store"] = getattr(a.send_c_store(ds), "Status", None)
            else:
                res["echo"] = getattr(a.send_c_echo(), "Status", None)
            if a.is_established:
                a.release()
            res["flags"] = (a.is_released, a.is_aborted)
        except Exception as exc:
            res["exc"] = repr(exc)
    ut = threading.Thread(target=user, daemon=True)
    ut.start()
    try:
        ok = harness.wait_for(lambda: stall_at["t"] is not None, 6.0)
        if not ok:
            return [], {"setup": "stall point not reached", "res": res}, "stall point not reached"
        counters["stall_points_reached"] = counters.get("stall_points_reached", 0) + 1
        waited, inc = liveness_verdict(viol, "requestor", tag, stall_at["t"], user_thread=ut, skew=bool(case.get("skew")))
        _crash_observations(viol)
        obs = {"phase": ph, "waited_s": round(waited, 2), "user_result": {k: v for k, v in res.items()},
               "fsm": [(f["before"], f["event"]) for f in taps.State.fsm][-5:]}
        return viol, obs, inc
    finally:
        for s in stallers:
            s.end()
        lst.close()
        harness.stop_ae(ae, 2.0)


def run_tls_server(case, counters):
    """TLS-enabled acceptor: a client that connects and never starts (or never finishes) the handshake must not keep the server
    from serving others for longer than the ACSE timeout."""
    import os
    import socket
    import ssl
    import pynetdicom
    taps.reset()
    viol = []
    certs = os.path.join(os.path.dirname(pynetdicom.__file__), "tests", "cert_files")
    if not os.path.exists(os.path.join(certs, "server.crt")):
        return [], {"setup": "no certificate files"}, "certificate files of the test suite not found"
    ae = harness.make_ae(timeouts=(T, T, T, T), supported=[VER])
    cx = ssl.create_default_context(ssl.Purpose.CLIENT_AUTH)
    cx.load_cert_chain(os.path.join(certs, "server.crt"), os.path.join(certs, "server.key"))
    server = ae.start_server(("127.0.0.1", 0), block=False, ssl_context=cx)
    port = server.socket.getsockname()[1]
    silent = socket.create_connection(("127.0.0.1", port))
    if case["style"] == "dribble":
        silent.sendall(b"\x16\x03\x01")            # the first bytes of a TLS record header, then nothing
    t_stall = time.time()
    counters["stall_points_reached"] = counters.get("stall_points_reached", 0) + 1
    counters["tls_scenarios"] = counters.get("tls_scenarios", 0) + 1
    time.sleep(0.1)
    ccx = ssl.SSLContext(ssl.PROTOCOL_TLS_CLIENT)
    ccx.check_hostname = False
    ccx.verify_mode = ssl.CERT_NONE
    obs = {"phase": case["phase"]}
    second = None
    try:
        raw = socket.create_connection(("127.0.0.1", port), timeout=SOFT)
        raw.settimeout(SOFT)
        try:
            second = vpeer.Peer(ccx.wrap_socket(raw))
            ac = second.associate(ps38.make_rq(), timeout=SOFT)
            obs["second_client"] = (ac or {}).get("type")
        except (OSError, ssl.SSLError) as exc:
            ac = None
            obs["second_client"] = repr(exc)[:120]
        obs["second_client_after_s"] = round(time.time() - t_stall, 2)
        if not ac or ac.get("type") != "AC":
            viol.append({"key": "server-blocked-by-stalled-tls-handshake|%s" % case["style"],
                         "detail": "a client that connected %.1f s earlier and never completed the TLS handshake keeps the server thread in wrap_socket(): "
                                   "a second client got %r within %.1f s (ACSE timeout %.1f s)" % (0.1, obs["second_client"], SOFT, T)})
        elif second is not None:
            second.release(2.0)
    finally:
        for s_ in (silent, second):
            try:
                if s_ is not None:
                    s_.close()
            except OSError:
                pass
        harness.stop_ae(ae, 2.0)
    return viol, obs, None


def run_case(case):
    if case["phase"] == "tls-server-handshake-stalled":
        counters = {"scenarios": 1, "acceptor_scenarios": 1}
        viol, obs, inc = run_tls_server(case, counters)
        return {"key": sha([case["role"], case["phase"], case["style"]]), "nontrivial": True, "sample": {"case": case, "observed": obs},
                "violations": viol, "counters": counters, "inconclusive": inc}
    counters = {"scenarios": 1, case["role"] + "_scenarios": 1}
    viol, obs, inc = (run_acceptor if case["role"] == "acceptor" else run_requestor)(case, counters)
    if case.get("skew"):
        counters["skewed_timeout_scenarios"] = 1
    return {"key": sha([case["role"], case["phase"], case["cut"], case["style"], bool(case.get("skew"))]), "nontrivial": bool(counters.get("stall_points_reached")),
            "sample": {"case": case, "observed": obs}, "violations": viol, "counters": counters, "inconclusive": inc}
