"""C01 — every PDU value survives encode/decode and matches the PS3.8 byte layout.

Monitors (all on the real pynetdicom objects, compared with the independent vlib.ps38 codec):
  M1 bytes(pynetdicom) == bytes(reference encoder)
  M2 reference structural walk of pynetdicom's bytes: every length field == length of what follows,
     reserved bytes zero
  M3 pynetdicom decode(encode(x)) == x and re-encodes to identical bytes; reference decode of
     pynetdicom's bytes == the abstract value
  M4 primitive -> PDU -> bytes -> PDU -> primitive preserves every transmitted parameter
  M5 (direct path) reference-encoded bytes decoded by pynetdicom then re-encoded == same bytes
     (exercises decoders on values the primitive setters cannot build: multiplicities, orders)
"""
from vlib import adapt, gen, ps38
from vlib.common import rng_for, sha

PID = "C01"
LEVEL = "exploration"
RULE = ("seeded abstract PDU values of all 7 types (AE titles 1-16 chars, UIDs 1-64, 0..128 contexts, any subset/"
        "multiplicity of user-information sub-items, user-identity fields incl. length 0, PDV lists) built through the "
        "public primitives and, separately, as reference bytes fed to the decoders; distinct = SHA-1 of the reference "
        "bytes; non-trivial = PDU carries >= 1 variable item or PDV")
ASSUMPTIONS = ["vlib/ps38.py is a faithful transcription of PS3.8 Tables 9-11..9-26 and PS3.7 Annex D (self-tested against the repo's captured PDUs)",
               "values refused by the public setters are outside the quantifier and are skipped (counted)"]
WORKERS = {"quick": 16, "thorough": 16}
REQUIRE = {"checked_RQ": 50, "checked_AC": 50, "checked_PDATA": 50, "checked_RJ": 10, "checked_ABORT": 10,
           "subitem_uid_rq": 20, "subitem_commonext": 20, "subitem_role": 20, "zero_len_primary": 1,
           "field_longer_than_255_uid_rq_prim": 5, "field_longer_than_255_uid_rq_sec": 5, "field_longer_than_255_uid_ac_resp": 5,
           "field_longer_than_255_sopext_info": 5, "values_under_custom_ae_validator": 500}


def gen_cases(tier, seed):
    n = 4000 if tier == "quick" else 300000
    per = 125 if tier == "quick" else 2500
    return [{"seed": seed, "block": b, "count": per} for b in range(n // per)]


def _ui_key(si):
    return si["k"]


def check_value(v, counters):
    """Returns list of violation dicts for abstract value v."""
    viol = []
    t = v["type"]
    ref = ps38.encode(v)
    # ---- path A: through the primitives
    try:
        prim = adapt.to_primitive_obj(v)
        pdu = adapt.to_pdu_obj(v, prim)
    except adapt.Rejected:
        counters["rejected_by_setters"] = counters.get("rejected_by_setters", 0) + 1
        pdu = None
    if pdu is not None:
        try:
            enc = pdu.encode()
        except Exception as exc:
            return [{"key": "encode-raises|%s|%s" % (t, type(exc).__name__), "detail": "%r for %r" % (exc, v)}]
        counters["checked_" + t] = counters.get("checked_" + t, 0) + 1
        if enc != ref:
            viol.append({"key": "bytes-differ|%s|%s" % (t, _first_diff_region(enc, ref, v)),
                         "detail": "pynetdicom %s != reference %s for %r" % (enc.hex()[:400], ref.hex()[:400], _short(v))})
        if len(pdu) != len(enc):
            viol.append({"key": "len-property|%s" % t, "detail": "len(pdu)=%d, encoded %d" % (len(pdu), len(enc))})
        w = ps38.Walk()
        try:
            back = ps38.decode(enc, w)
            if w.problems:
                viol.append({"key": "length-field|%s|%s" % (t, w.problems[0].split(":")[0][:40]),
                             "detail": "%r in %s" % (w.problems[:3], enc.hex()[:300])})
            elif ps38.canon(back) != ps38.canon(v):
                viol.append({"key": "refdecode-differs|%s" % t, "detail": "reference decode of pynetdicom bytes %r != %r" % (_short(ps38.canon(back)), _short(ps38.canon(v)))})
        except Exception as exc:
            viol.append({"key": "refdecode-raises|%s" % t, "detail": "%r on %s" % (exc, enc.hex()[:300])})
        # M3 + M4
        try:
            q = adapt.pdu_class(t)()
            q.decode(enc)
            if not (q == pdu):
                viol.append({"key": "decode-not-equal|%s|%s" % (t, _ui_kinds_differ(q, pdu)), "detail": "decode(encode(x)) != x for %r" % _short(v)})
            enc2 = q.encode()
            if enc2 != enc:
                viol.append({"key": "reencode-differs|%s|%s" % (t, _first_diff_region(enc2, enc, v)), "detail": "%s vs %s" % (enc2.hex()[:300], enc.hex()[:300])})
            p2 = q.to_primitive()
            got = adapt.from_primitive_obj(p2, t)
            want = ps38.canon(v)
            if ps38.canon(got) != want:
                viol.append({"key": "primitive-roundtrip|%s|%s" % (t, _diff_field(ps38.canon(got), want)),
                             "detail": "got %r want %r" % (_short(ps38.canon(got)), _short(want))})
        except Exception as exc:
            viol.append({"key": "decode-raises|%s|%s" % (t, type(exc).__name__), "detail": "%r decoding own bytes %s" % (exc, enc.hex()[:300])})
    # ---- path B: reference bytes -> pynetdicom decoder -> encoder (decoders on arbitrary multiplicity/order)
    try:
        q = adapt.pdu_class(t)()
        q.decode(ref)
        enc3 = q.encode()
        counters["direct_" + t] = counters.get("direct_" + t, 0) + 1
        if enc3 != ref:
            viol.append({"key": "direct-reencode-differs|%s|%s" % (t, _first_diff_region(enc3, ref, v)),
                         "detail": "decode(reference bytes).encode() = %s, reference %s, value %r" % (enc3.hex()[:300], ref.hex()[:300], _short(v))})
        q2 = adapt.pdu_class(t)()
        q2.decode(enc3)
        if not (q2 == q):
            viol.append({"key": "direct-decode-not-equal|%s" % t, "detail": "unstable decode for %r" % _short(v)})
    except Exception as exc:
        viol.append({"key": "direct-decode-raises|%s|%s" % (t, type(exc).__name__), "detail": "%r on reference bytes %s" % (exc, ref.hex()[:300])})
    for si in (v.get("ui") or []):
        counters["subitem_" + si["k"]] = counters.get("subitem_" + si["k"], 0) + 1
        if si["k"] == "uid_rq" and si["prim"] == "":
            counters["zero_len_primary"] = counters.get("zero_len_primary", 0) + 1
        for f in ("prim", "sec", "resp", "info"):
            if isinstance(si.get(f), str) and len(si[f]) // 2 > 255:
                counters["field_longer_than_255_" + si["k"] + "_" + f] = counters.get("field_longer_than_255_" + si["k"] + "_" + f, 0) + 1
    return viol


def _short(v):
    s = repr(v)
    return s if len(s) < 700 else s[:700] + "..."


def _diff_field(a, b):
    if a.get("type") != b.get("type"):
        return "type"
    for k in b:
        if a.get(k) != b.get(k):
            if k == "ui" and isinstance(a.get(k), list) and isinstance(b.get(k), list):
                for x, y in zip(a[k], b[k]):
                    if x != y:
                        return "ui." + y["k"] + ("+zero-primary" if y.get("k") == "uid_rq" and y.get("prim") == "" else "")
                return "ui.count"
            return k
    return "?"


def _first_diff_region(a, b, v):
    """Name the structural region of the first differing byte (mechanism key, not the input)."""
    n = min(len(a), len(b))
    i = next((k for k in range(n) if a[k] != b[k]), n)
    t = v["type"]
    if t in ("RQ", "AC"):
        if i < 6:
            return "pdu-header"
        if i < 74:
            return "fixed-fields"
        # locate item
        off = 74
        try:
            while off < len(b):
                it = b[off]; ln = int.from_bytes(b[off + 2:off + 4], "big")
                if off <= i < off + 4 + ln:
                    if it == 0x50:
                        so = off + 4
                        while so < off + 4 + ln:
                            st = b[so]; sl = int.from_bytes(b[so + 2:so + 4], "big")
                            if so <= i < so + 4 + sl:
                                return "ui-subitem-%02x" % st
                            so += 4 + sl
                    return "item-%02x" % it
                off += 4 + ln
        except Exception:
            pass
        return "tail"
    return "offset-%d" % min(i, 12)


def _ui_kinds_differ(q, pdu):
    try:
        a = q.user_information.user_data; b = pdu.user_information.user_data
        for x, y in zip(a, b):
            if not (x == y):
                return type(y).__name__
    except Exception:
        pass
    return "other"


def _strict_ae(value):
    """A site-specific AE validator as _config.VALIDATORS allows: the built-in rules plus 'no leading/trailing space' (a naming
    convention applied to the title itself, not to the padded 16-byte wire field)."""
    from pynetdicom._validators import validate_ae
    if isinstance(value, str) and value != value.strip(" "):
        return False, "must not have leading or trailing spaces"
    return validate_ae(value)


def run_case(case):
    from pynetdicom import _config
    prev = _config.VALIDATORS["AE"]
    strict = case.get("block", 0) % 3 == 2 and "value" not in case
    if strict:
        _config.VALIDATORS["AE"] = _strict_ae
    try:
        r = _run_case(case)
    finally:
        _config.VALIDATORS["AE"] = prev
    if strict:
        r["counters"]["values_under_custom_ae_validator"] = r["counters"].get("values", 0)
    return r


def _run_case(case):
    rng = rng_for(case["seed"], PID, case["block"])
    counters = {}
    keys = set()
    viols = {}
    sample = None
    values = [case["value"]] if "value" in case else None
    n = case.get("count", 1)
    for i in range(n):
        if values is not None:
            v = values[0]
        else:
            v = gen.gen_value(rng)
            if case["block"] == 0 and i < 12:
                v = BOUNDARY[i % len(BOUNDARY)]
        vs = check_value(v, counters)
        nontrivial = bool(v.get("pcs") or v.get("pdvs") or v.get("ui"))
        if nontrivial:
            keys.add(sha(ps38.encode(v)))
        if sample is None and nontrivial and v["type"] in ("RQ", "AC"):
            sample = {"value": _short(v), "reference_bytes": ps38.encode(v).hex()[:300]}
        for x in vs:
            if x["key"] not in viols:
                x["value"] = v
                viols[x["key"]] = x
    counters["values"] = n
    counters["distinct_nontrivial_values"] = len(keys)
    return {"key": sha(sorted(keys)), "nontrivial": bool(keys), "sample": sample,
            "violations": [{"key": k, "detail": x["detail"] + " || value=" + _short(x["value"])} for k, x in viols.items()],
            "counters": counters}


BOUNDARY = [
    # zero-length user-identity primary field (legal per quantifier: "fields of any length")
    {"type": "RQ", "version": 1, "called": "A", "calling": "B" * 16, "app_ctx": ps38.DEFAULT_APP_CTX,
     "pcs": [{"id": 1, "abs": ps38.VERIFICATION, "ts": [ps38.IMPLICIT_LE]}],
     "ui": [{"k": "maxlen", "v": 0}, {"k": "impl_uid", "v": "1.2.3"},
            {"k": "uid_rq", "utype": 1, "resp": 0, "prim": "", "sec": ""}]},
    {"type": "RQ", "version": 1, "called": "A", "calling": "B", "app_ctx": ps38.DEFAULT_APP_CTX,
     "pcs": [{"id": 255, "abs": "1." + "2" * 62, "ts": ["1." + "3" * 62]}],
     "ui": [{"k": "maxlen", "v": 2 ** 32 - 1}, {"k": "impl_uid", "v": "1." + "4" * 62},
            {"k": "uid_rq", "utype": 2, "resp": 1, "prim": "00", "sec": "ff"},
            {"k": "commonext", "uid": "1.2", "svc": "1.3", "rel": []},
            {"k": "commonext", "uid": "1.2.4", "svc": "1.3", "rel": ["1.4", "1.55", "1.666"]}]},
    {"type": "AC", "version": 1, "called": "X Y", "calling": "Z", "app_ctx": ps38.DEFAULT_APP_CTX,
     "pcs": [{"id": 1, "result": 0, "ts": ps38.IMPLICIT_LE}, {"id": 3, "result": 3, "ts": ps38.IMPLICIT_LE},
             {"id": 5, "result": 4, "ts": ps38.EXPLICIT_BE}],
     "ui": [{"k": "maxlen", "v": 16382}, {"k": "impl_uid", "v": "1.2.3"},
            {"k": "role", "uid": "1.2.840.10008.5.1.4.1.1.2", "scu": 1, "scp": 0},
            {"k": "role", "uid": "1.2.840.10008.5.1.4.1.1.4", "scu": 0, "scp": 1},
            {"k": "uid_ac", "resp": ""}]},
    {"type": "PDATA", "pdvs": []},
    {"type": "PDATA", "pdvs": [{"id": 1, "data": "03"}, {"id": 255, "data": "00" + "ab" * 10}]},
    {"type": "ABORT", "source": 2, "reason": 6},
    {"type": "RJ", "result": 2, "source": 3, "reason": 2},
]


def extra_evidence(tier, results):
    n = sum(r.get("counters", {}).get("distinct_nontrivial_values", 0) for r in results.values())
    return {"distinct_nontrivial": n}
