"""C11 — requestor and acceptor end up with the same view of the negotiated presentation contexts.

Workload: REAL associations between two pynetdicom AEs on loopback, one acceptor AE (own server, port 0) and one
requestor AE per association:

  acceptor   AE.add_supported_context(abstract, transfer_syntaxes, scu_role=, scp_role=) for every generated supported
             context (all 9 settings of {None,True,False}^2 are generated; start_server() admits 5, the mixed-None ones
             are counted as rejected by the API), AE.start_server(("127.0.0.1", 0), block=False, evt_handlers=[...])
  requestor  AE.associate("127.0.0.1", port, contexts=[build_context(ab, ts_list), ...],
                          ext_neg=[build_role(uid, scu_role=, scp_role=), ...])
  mode       _config.UNRESTRICTED_STORAGE_SERVICE False / True (restored in a finally)

Inputs come from C10's generators (props.C10.gen_input / table_inputs: 13 abstract syntaxes incl. duplicates inside
one request, ordered subsets of 6 transfer syntaxes, 1..128 requested contexts, role proposals also for SOP classes
that are not proposed); context ids are what AE.associate() assigns (1, 3, 5, ... by list position).  A role proposal
SCU=0/SCP=0 cannot be sent by a pynetdicom requestor (the A-ASSOCIATE-RQ is never encoded, see `ff_probe`), so such
proposals are replaced by one of the three encodable ones except in a few probe associations.

Observed per association
  requestor  assoc.accepted_contexts / rejected_contexts / is_established after associate() returned, and its decoded
             view of the role-selection replies (assoc.acceptor.role_selection)
  acceptor   assoc.accepted_contexts / rejected_contexts / acceptor.role_selection captured in an EVT_ESTABLISHED
             handler (EVT_ACCEPTED as fallback), is_established at the end
  wire       the A-ASSOCIATE-RQ sent by the requestor's socket and the A-ASSOCIATE-AC sent by the acceptor's socket
             (vlib.taps socket proxies), decoded by the independent reference codec vlib.ps38

Oracle (only what the property states; reference = vlib.refneg, never pynetdicom)
  O1 the RQ on the wire carries exactly the generated proposal (ids by position, abstract syntax, transfer syntaxes in
     order, one role item per proposed role)                                               rq-wire-differs|...
  O2 every proposed id appears exactly once among the requestor's accepted+rejected contexts, none invented
                                                                                           requestor-view|...
     (same bookkeeping on the acceptor                                                      acceptor-view|...)
  O3 both sides hold the same set of accepted ids                                          accepted-set-differs|...
  O4 per accepted id: same abstract syntax (= the proposed one) and the same single transfer syntax
                                                                            abstract-syntax-differs|..., transfer-syntax|...
  O5 roles complementary: rq.as_scu == ac.as_scp and rq.as_scp == ac.as_scu               roles-not-complementary|...
     (unrestricted mode, context treated as storage by the real code:                unrestricted|roles-not-complementary|...)
  O6 the AC bytes on the wire, decoded independently, carry exactly the acceptor's view: one result item per proposed
     id, result 0 + the acceptor's transfer syntax for its accepted contexts, the acceptor's result code for the
     rejected ones, role-selection items = the acceptor's replies                          ac-wire-differs|...
  O7 the requestor's view equals refneg.negotiate_as_requestor_ref(proposal, wire AC results, role proposals, wire
     role replies): accepted/rejected, result code, transfer syntax, roles; and the requestor's decoded role replies
     equal the wire's                                                   requestor-differs-from-reference|..., rq-decode-differs|...
  O8 no accepted context => not established on either side (acceptor: within a bounded wait after the requestor's
     A-ABORT); >= 1 accepted context on both sides => established on both sides
                                                   established-without-accepted-context|..., not-established-with-accepted-contexts|...
Supplementary workload `scripted` (requestor half of the property only): the same real requestor against a scripted
reference acceptor (vlib.peer.Listener) that answers with the A-ASSOCIATE-AC vlib.refneg prescribes for the RQ it
received, its result items in a seeded permutation of the id order (PS3.8 does not prescribe an item order; a
pynetdicom acceptor always sends accepted-then-rejected, each in id order), so that "every proposed id exactly once,
matched by id" (O2, O7) is also exercised on arbitrary item orders.  O1, O2 (requestor), O7, O8 (requestor) apply.

Auxiliary (counted, not asserted here): C10's acceptor postconditions evaluated on the acceptor's captured view
(`c10_postcondition_hits_known_c10_findings` / `_other`, keys in the sample) - they are C10's subject.
"""
import collections
import threading
import time

from props import C10
from vlib import harness, peer as vpeer, ps38, refneg, taps
from vlib.common import rng_for, sha

PID = "C11"
LEVEL = "exploration"
RULE = ("one evaluation = one real association between two pynetdicom AEs on loopback. (a) role table: C10.table_inputs "
        "restricted to what the public API can carry (role proposal absent/TT/TF/FT x supported roles NN/TT/TF/FT/FF x 3 "
        "transfer-syntax situations x 5 abstract-syntax categories x 6 list layouts x 2 modes; quick tier: every 6th, "
        "offset by seed); (b) directed 128-context requests; (c) seeded C10.gen_input requests (1..128 contexts over 13 "
        "abstract syntaxes with duplicates, ordered subsets of 6 transfer syntaxes, supported contexts with all 9 role "
        "settings, role proposals incl. for unproposed SOP classes, both UNRESTRICTED_STORAGE_SERVICE modes); (d) a few "
        "SCU=0/SCP=0 probes; (e) supplementary: seeded requests answered by a scripted reference acceptor with permuted "
        "result-item order (requestor half of the oracle only). distinct = SHA-1 of the canonical input (proposal, "
        "supported contexts, role proposals, mode, scripted?); non-trivial = the A-ASSOCIATE-AC on the wire accepts >= 1 context AND carries a non-accepted result or "
        "a role-selection reply")
ASSUMPTIONS = [
    "sequential associations on loopback, one acceptor association per server; no other extended negotiation, no "
    "user identity, default AE-title policy (nothing but presentation contexts can decide the outcome)",
    "context ids are the ones AE.associate() assigns (1,3,5,... by list position); a pynetdicom acceptor lists its "
    "accepted contexts before its rejected ones in the AC, each group in id order (other orders: `scripted` workload)",
    "the supplementary `scripted` associations (conformant ACs from a non-pynetdicom acceptor, result items not in id "
    "order) lie outside the literal quantifier 'two pynetdicom AEs'; they only assert the requestor-side sentence of "
    "the property and its agreement with the bytes it received",
    "vlib/refneg.py requestor-side interpretation = PS3.7 D.3.3.4 / docs/user/presentation_role_selection.rst; role "
    "comparison with the reference is skipped for (proposal, reply) pairs outside the documented table",
    "a SCU=0/SCP=0 role proposal never reaches the wire from a pynetdicom requestor (encoding raises), so the "
    "acceptor's treatment of it is out of this property's reach (C10 covers it by direct calls)",
    "acceptor 'not established' after a negotiation without accepted contexts is judged after a bounded wait (10 s) "
    "for the requestor's A-ABORT to be processed; a still-running acceptor thread after that is a violation only if "
    "the A-ABORT is on the wire or was never sent, else inconclusive",
]
WORKERS = {"quick": 16, "thorough": 16}
MAX_INCONCLUSIVE_FRAC = 0.02
REQUIRE = {"associations": 500, "established_both": 250, "no_accepted_context": 20, "contexts_compared": 1500,
           "accepted_contexts_compared": 400, "role_replies_on_wire": 150, "lists_128": 2, "lists_dup_abstract": 60,
           "assoc_unrestricted": 100, "assoc_normal": 200, "result_0x00": 400, "result_0x01": 15, "result_0x03": 150,
           "result_0x04": 80, "roles_default": 200, "roles_inverted": 25, "roles_both": 25,
           "reference_views_compared": 500, "ac_wire_checked": 500, "supported_role_None": 30,
           "api_rejected_mixed_none": 1, "scripted_associations": 80, "scripted_result_order_differs": 40}

TS = refneg.TRANSFER_SYNTAXES
POOL = list(refneg.POOL)
TIMEOUTS = (6.0, 6.0, 6.0, 6.0)
ENCODABLE_ROLES = [(True, True), (True, False), (False, True)]
ADMITTED_SUPPORTED = [(None, None), (True, True), (True, False), (False, True), (False, False)]


def _rs(r):
    return C10._rs(None if r is None else tuple(r))


# ------------------------------------------------------------------------------------ generation

def _table():
    """C10's exhaustive role table restricted to what two pynetdicom AEs can carry."""
    out = []
    for inp in C10.table_inputs():
        if any(tuple(v) == (False, False) for v in inp["roles"].values()):
            continue
        if any((s[2], s[3]) not in ADMITTED_SUPPORTED for s in inp["supported"]):
            continue
        out.append(inp)
    return out


def _big_inputs(rng):
    out = []
    for mode in ("normal", "unrestricted", "normal"):
        sub = rng.sample(POOL, rng.randint(4, len(POOL)))
        proposed = [[2 * i + 1, rng.choice(sub), C10._ordered_subset(rng)] for i in range(128)]
        supported = []
        for ab in sub:
            if rng.random() < 0.7:
                sr = rng.choice(ADMITTED_SUPPORTED)
                supported.append([ab, C10._ordered_subset(rng), sr[0], sr[1]])
        if not supported:
            supported.append([sub[0], [TS[0]], None, None])
        roles = {ab: list(rng.choice(ENCODABLE_ROLES)) for ab in sub if rng.random() < 0.6}
        out.append({"proposed": proposed, "supported": supported, "roles": roles, "mode": mode})
    return out


def normalise(inp, rng=None, keep_ff=False):
    """Adapt a C10 input to the association API: ids by position; SCU=0/SCP=0 proposals made encodable."""
    proposed = [[2 * i + 1, p[1], list(p[2])] for i, p in enumerate(inp["proposed"])]
    roles = {}
    for ab, v in sorted(inp["roles"].items()):
        v = (bool(v[0]), bool(v[1]))
        if v == (False, False) and not keep_ff:
            v = rng.choice(ENCODABLE_ROLES) if rng is not None else (True, True)
        roles[ab] = list(v)
    return {"proposed": proposed, "supported": [list(s) for s in inp["supported"]], "roles": roles, "mode": inp["mode"]}


def gen_cases(tier, seed):
    cases = []
    ntab = len(_table())
    stride = 6 if tier == "quick" else 1
    per_t = 25 if tier == "quick" else 60
    picked = list(range(seed % stride, ntab, stride))
    for b in range((len(picked) + per_t - 1) // per_t):
        cases.append({"seed": seed, "kind": "table", "block": b, "stride": stride, "lo": b * per_t,
                      "hi": min(len(picked), (b + 1) * per_t)})
    for b in range(2 if tier == "quick" else 8):
        cases.append({"seed": seed, "kind": "big", "block": b})
    cases.append({"seed": seed, "kind": "ff_probe", "block": 0})
    for b in range(8 if tier == "quick" else 40):
        cases.append({"seed": seed, "kind": "scripted", "block": b, "count": 15 if tier == "quick" else 100})
    n = 520 if tier == "quick" else 40000
    per = 20 if tier == "quick" else 125
    for b in range(n // per):
        cases.append({"seed": seed, "kind": "random", "block": b, "count": per})
    return cases


def inputs_of(case):
    if "input" in case:
        return [normalise(case["input"], keep_ff=True)]
    kind = case["kind"]
    rng = rng_for(case["seed"], PID, kind, case["block"])
    if kind == "table":
        tab = _table()
        picked = list(range(case["seed"] % case["stride"], len(tab), case["stride"]))[case["lo"]:case["hi"]]
        return [normalise(tab[i], rng) for i in picked]
    if kind == "big":
        return [normalise(i, rng) for i in _big_inputs(rng)]
    if kind == "ff_probe":
        ct, ver = "1.2.840.10008.5.1.4.1.1.2", "1.2.840.10008.1.1"
        out = []
        for mode in ("normal", "unrestricted"):
            out.append({"proposed": [[1, ct, [TS[0], TS[1]]], [3, ver, [TS[0]]]],
                        "supported": [[ct, [TS[0]], True, True], [ver, [TS[0]], None, None]],
                        "roles": {ct: [False, False]}, "mode": mode})
        return out
    out = []
    while len(out) < case["count"]:
        inp = C10.gen_input(rng)
        if not inp["proposed"]:
            continue
        if rng.random() < 0.85:
            # start_server() refuses supported contexts with exactly one role None (about 40 % of C10's inputs):
            # mostly repair them to the documented meaning (None, None); the rest exercises the API rejection
            for s in inp["supported"]:
                if (s[2] is None) != (s[3] is None):
                    s[2] = s[3] = None
        out.append(normalise(inp, rng))
    return out


# ------------------------------------------------------------------------------------ real code

class ApiRejected(Exception):
    pass


_STOPPERS = []


def setup_worker():
    harness.quiet_logging()
    taps.install()


def _stop_async(ae):
    def run():
        try:
            ae.shutdown()
        except Exception:
            pass
    t = threading.Thread(target=run, daemon=True)
    t.start()
    _STOPPERS.append(t)


def _join_stoppers(timeout=8.0):
    deadline = time.time() + timeout
    while _STOPPERS:
        t = _STOPPERS.pop()
        t.join(max(0.0, deadline - time.time()))


def _cx_rows(cxs):
    return [[cx.context_id, None if cx.abstract_syntax is None else str(cx.abstract_syntax),
             [str(t) for t in cx.transfer_syntax], cx.result, cx.as_scu, cx.as_scp] for cx in cxs]


def _role_rows(role_selection):
    return {str(uid): [it.scu_role, it.scp_role] for uid, it in role_selection.items()}


def _has_ff(inp):
    return any(tuple(bool(x) for x in v) == (False, False) for v in inp["roles"].values())


def observe(inp):
    """One real association.  Returns the observation dict; raises ApiRejected when the public API refuses the input."""
    from pynetdicom import _config, build_context, build_role, evt
    taps.reset()
    ff = _has_ff(inp)
    timeouts = (0.6, 2.0, 2.0, 2.0) if ff else TIMEOUTS
    seen = {}
    lock = threading.Lock()

    def capture(tag):
        def handler(event):
            a = event.assoc
            snap = {"accepted": _cx_rows(a.accepted_contexts), "rejected": _cx_rows(a.rejected_contexts),
                    "replies": _role_rows(a.acceptor.role_selection), "established": bool(a.is_established)}
            with lock:
                seen[tag] = snap
        return handler

    acc = harness.make_ae("ACCEPTOR", timeouts=timeouts)
    req = None
    saved = _config.UNRESTRICTED_STORAGE_SERVICE
    obs = {"ff": ff}
    try:
        try:
            for ab, tss, scu, scp in inp["supported"]:
                acc.add_supported_context(ab, list(tss), scu_role=scu, scp_role=scp)
        except (ValueError, TypeError) as exc:
            raise ApiRejected("add_supported_context: %r" % (exc,))
        _config.UNRESTRICTED_STORAGE_SERVICE = inp["mode"] == "unrestricted"
        try:
            server, port = harness.start_server(acc, [(evt.EVT_ACCEPTED, capture("accepted")),
                                                      (evt.EVT_ESTABLISHED, capture("established"))])
        except ValueError as exc:
            raise ApiRejected("start_server: %s" % (str(exc).split("\n")[0][:120],))
        try:
            contexts = [build_context(ab, list(tss)) for _, ab, tss in inp["proposed"]]
            ext = [build_role(ab, scu_role=bool(v[0]), scp_role=bool(v[1])) for ab, v in sorted(inp["roles"].items())]
        except (ValueError, TypeError) as exc:
            raise ApiRejected("build_context/build_role: %r" % (exc,))
        req = harness.make_ae("REQUESTOR", timeouts=timeouts)
        try:
            assoc = req.associate("127.0.0.1", port, contexts=contexts, ext_neg=ext, ae_title="ACCEPTOR")
        except (ValueError, TypeError, RuntimeError) as exc:
            raise ApiRejected("associate: %r" % (exc,))
        obs["rq_established"] = bool(assoc.is_established)
        obs["rq_aborted"] = bool(assoc.is_aborted)
        obs["rq_rejected_assoc"] = bool(assoc.is_rejected)
        obs["rq_accepted"] = _cx_rows(assoc.accepted_contexts)
        obs["rq_rejected"] = _cx_rows(assoc.rejected_contexts)
        try:
            obs["rq_replies"] = _role_rows(assoc.acceptor.role_selection) if assoc.acceptor.primitive is not None else None
        except Exception as exc:
            obs["rq_replies"] = None
            obs["rq_replies_error"] = repr(exc)

        # wire: requestor's RQ, acceptor's AC
        def wire():
            rq_b = ac_b = None
            n_rq = n_ac = 0
            abort_tx = abort_rx = False
            for s in list(taps.State.socks):
                tx, _ = taps.wire_pdus(s.sid, "tx")
                if s.role == "requestor":
                    for p in tx:
                        if p[0] == 1:
                            rq_b = p if rq_b is None else rq_b
                            n_rq += 1
                        if p[0] == 7:
                            abort_tx = True
                else:
                    for p in tx:
                        if p[0] == 2:
                            ac_b = p if ac_b is None else ac_b
                            n_ac += 1
                    rx, _ = taps.wire_pdus(s.sid, "rx")
                    abort_rx = abort_rx or any(p[0] == 7 for p in rx)
            return rq_b, ac_b, n_rq, n_ac, abort_tx, abort_rx

        rq_b, ac_b, n_rq, n_ac, _, _ = wire()
        if ac_b is not None:
            harness.wait_for(lambda: "established" in seen, timeout=10.0, poll=0.002)
        with lock:
            obs["ac_view"] = seen.get("established") or seen.get("accepted")
            obs["ac_events"] = sorted(seen)
        ac_assocs = [a for a in list(taps.State.assocs) if a.is_acceptor]
        obs["n_acceptor_assocs"] = len(ac_assocs)
        if obs["rq_established"]:
            try:
                assoc.release()
            except Exception as exc:
                obs["release_error"] = repr(exc)
        # acceptor must leave the established state once the requestor is gone (release or abort)
        if ac_assocs:
            a = ac_assocs[0]
            done = harness.wait_for(lambda: not a.is_established, timeout=10.0, poll=0.002)
            obs["ac_established_final"] = not done
            obs["ac_aborted"] = bool(a.is_aborted)
            obs["ac_released"] = bool(a.is_released)
        rq_b, ac_b, n_rq, n_ac, abort_tx, abort_rx = wire()
        obs.update({"n_rq": n_rq, "n_ac": n_ac, "abort_tx": abort_tx, "abort_rx": abort_rx})
        for name, b in (("wire_rq", rq_b), ("wire_ac", ac_b)):
            obs[name] = None
            if b is not None:
                try:
                    obs[name] = ps38.canon(ps38.decode(b))
                except Exception as exc:
                    obs[name + "_error"] = repr(exc)
        obs["excs"] = [{"type": e["type"], "where": e["where"], "text": e["text"][:160]} for e in taps.State.excs]
    finally:
        _config.UNRESTRICTED_STORAGE_SERVICE = saved
        _stop_async(acc)
        if req is not None:
            _stop_async(req)
    return obs


def observe_scripted(inp, order_seed):
    """Requestor = real AE.associate(); acceptor = scripted reference peer (vlib.peer.Listener) answering with the AC
    that vlib.refneg prescribes for the RQ it received, result items in a seeded permutation of the id order."""
    from pynetdicom import build_context, build_role
    taps.reset()
    rng = rng_for(order_seed, PID, "scripted-order")
    lst = vpeer.Listener()
    res = {}

    def acceptor():
        peer = lst.accept(8.0)
        if peer is None:
            res["note"] = "no connection"
            return
        try:
            rq = peer.recv_pdu(8.0)
            if not rq or rq.get("type") != "RQ":
                res["note"] = "no RQ: %r" % (None if rq is None else rq.get("type"),)
                return
            proposed = [(p["id"], p["abs"], list(p["ts"])) for p in rq["pcs"]]
            rolesp = {s["uid"]: (bool(s["scu"]), bool(s["scp"])) for s in rq["ui"] or [] if s["k"] == "role"}
            exp = refneg.negotiate_as_acceptor_ref(proposed, [tuple(x) for x in inp["supported"]], rolesp,
                                                   unrestricted=inp["mode"] == "unrestricted")
            pcs = []
            for cid, ab, tss in proposed:
                r = exp["results"][cid]
                code = 0 if r["result"] is None else r["result"]
                pcs.append({"id": cid, "result": code, "ts": r["ts"] if (code == 0 and r["ts"]) else tss[0]})
            order = list(range(len(pcs)))
            how = rng.choice(["shuffle", "shuffle", "reverse", "rotate", "same"])
            if how == "shuffle":
                rng.shuffle(order)
            elif how == "reverse":
                order.reverse()
            elif how == "rotate" and order:
                k = rng.randrange(len(order))
                order = order[k:] + order[:k]
            pcs = [pcs[i] for i in order]
            res["shuffled"] = order != sorted(order)
            ui = [{"k": "maxlen", "v": 16382}, {"k": "impl_uid", "v": "1.2.826.0.1.3680043.9.3811.9.9"},
                  {"k": "impl_ver", "v": "REFPEER"}]
            accepted_abs = {ab for cid, ab, _ in proposed if exp["results"][cid]["result"] in (0, None)}
            for ab, rep in sorted(exp["replies"].items()):
                if ab not in accepted_abs or ab not in rolesp:
                    continue
                if rep is None:
                    rep = rolesp[ab]          # not fixed by the documentation: grant what was proposed
                if isinstance(rep, tuple) and (rep[0] or rep[1]):
                    ui.append({"k": "role", "uid": ab, "scu": int(rep[0]), "scp": int(rep[1])})
            ac = {"type": "AC", "version": 1, "called": rq["called"], "calling": rq["calling"],
                  "app_ctx": rq["app_ctx"], "pcs": pcs, "ui": ui}
            raw = ps38.encode(ac)
            res["ac_raw"] = raw
            peer.send_pdu(raw)
            v = peer.recv_pdu(10.0)
            res["after_ac"] = None if v is None else v.get("type")
            if v and v.get("type") == "RELRQ":
                peer.send_pdu({"type": "RELRP"})
            peer.wait_eof(2.0)
        except Exception as exc:
            res["note"] = "scripted acceptor error: %r" % (exc,)
        finally:
            peer.close()

    th = threading.Thread(target=acceptor, daemon=True)
    th.start()
    req = None
    obs = {"scripted": True}
    try:
        try:
            contexts = [build_context(ab, list(tss)) for _, ab, tss in inp["proposed"]]
            ext = [build_role(ab, scu_role=bool(v[0]), scp_role=bool(v[1])) for ab, v in sorted(inp["roles"].items())]
        except (ValueError, TypeError) as exc:
            raise ApiRejected("build_context/build_role: %r" % (exc,))
        req = harness.make_ae("REQUESTOR", timeouts=TIMEOUTS)
        try:
            assoc = req.associate("127.0.0.1", lst.port, contexts=contexts, ext_neg=ext, ae_title="ACCEPTOR")
        except (ValueError, TypeError, RuntimeError) as exc:
            raise ApiRejected("associate: %r" % (exc,))
        obs["rq_established"] = bool(assoc.is_established)
        obs["rq_aborted"] = bool(assoc.is_aborted)
        obs["rq_accepted"] = _cx_rows(assoc.accepted_contexts)
        obs["rq_rejected"] = _cx_rows(assoc.rejected_contexts)
        try:
            obs["rq_replies"] = _role_rows(assoc.acceptor.role_selection) if assoc.acceptor.primitive is not None else None
        except Exception as exc:
            obs["rq_replies"] = None
        if obs["rq_established"]:
            try:
                assoc.release()
            except Exception as exc:
                obs["release_error"] = repr(exc)
        th.join(15.0)
        obs["peer_note"] = res.get("note")
        obs["shuffled"] = res.get("shuffled")
        obs["wire_rq"] = obs["wire_ac"] = None
        n_rq = 0
        for s in list(taps.State.socks):
            if s.role == "requestor":
                for p in taps.wire_pdus(s.sid, "tx")[0]:
                    if p[0] == 1:
                        n_rq += 1
                        if obs["wire_rq"] is None:
                            obs["wire_rq"] = ps38.canon(ps38.decode(p))
        obs["n_rq"] = n_rq
        if res.get("ac_raw") is not None:
            obs["wire_ac"] = ps38.canon(ps38.decode(res["ac_raw"]))
        obs["excs"] = [{"type": e["type"], "where": e["where"], "text": e["text"][:160]} for e in taps.State.excs]
    finally:
        lst.close()
        if req is not None:
            _stop_async(req)
    return obs


# ------------------------------------------------------------------------------------ oracle

def _short(inp):
    return C10._short(inp)


def _short_obs(obs):
    o = {}
    for k in ("rq_established", "rq_accepted", "rq_rejected", "rq_replies", "ac_view", "ac_established_final", "excs"):
        v = obs.get(k)
        if isinstance(v, list) and len(v) > 6:
            v = v[:5] + ["... %d" % len(v)]
        if isinstance(v, dict) and k == "ac_view":
            v = {kk: (vv[:5] + ["... %d" % len(vv)] if isinstance(vv, list) and len(vv) > 6 else vv) for kk, vv in v.items()}
        o[k] = v
    w = obs.get("wire_ac")
    if w:
        o["wire_ac"] = {"pcs": w["pcs"][:6] + (["... %d" % len(w["pcs"])] if len(w["pcs"]) > 6 else []),
                        "roles": [s for s in w["ui"] or [] if s["k"] == "role"]}
    return o


def _classify(mode, ab):
    """How the context is handled: 'negotiated' | 'storage-like' | 'known-non-storage-sop-class-treated-as-storage'."""
    if mode != "unrestricted":
        return "negotiated"
    if refneg.is_storage_like(ab):
        return "storage-like"
    if C10.real_treats_as_storage_like(ab):
        return "known-non-storage-sop-class-treated-as-storage"
    return "negotiated"


class _Cx:
    """Per-association oracle context."""

    def __init__(self, inp, obs):
        self.inp, self.obs = inp, obs
        self.mode = inp["mode"]
        self.proposed = [(p[0], p[1], list(p[2])) for p in inp["proposed"]]
        self.by_id = {p[0]: p for p in self.proposed}
        self.roles = {ab: (bool(v[0]), bool(v[1])) for ab, v in inp["roles"].items()}
        self.sup = {s[0]: s for s in inp["supported"]}
        self.V = []

    def viol(self, key, detail):
        self.V.append({"key": key, "detail": "%s ; input=%r ; observed=%r" % (detail, _short(self.inp), _short_obs(self.obs))})


def _o1_rq_wire(C):
    """O1: the A-ASSOCIATE-RQ on the wire carries exactly the generated proposal."""
    wrq = C.obs.get("wire_rq")
    if wrq is None:
        return
    proposed, roles = C.proposed, C.roles
    got = [(p["id"], p["abs"], list(p["ts"])) for p in wrq["pcs"]]
    if got != proposed:
        what = "count" if len(got) != len(proposed) else (
            "ids" if [g[0] for g in got] != [p[0] for p in proposed] else (
                "abstract-syntax" if [g[1] for g in got] != [p[1] for p in proposed] else "transfer-syntaxes"))
        C.viol("rq-wire-differs|contexts|%s" % what, "A-ASSOCIATE-RQ on the wire proposes %r" % (got[:6],))
    wroles = [(s["uid"], s["scu"], s["scp"]) for s in wrq["ui"] or [] if s["k"] == "role"]
    want = sorted((ab, int(v[0]), int(v[1])) for ab, v in roles.items())
    if sorted(wroles) != want:
        C.viol("rq-wire-differs|role-proposal", "role items on the wire %r, proposed %r" % (sorted(wroles), want))
    if C.obs.get("n_rq", 1) != 1:
        C.viol("rq-wire-differs|count-of-rq-pdus", "%d A-ASSOCIATE-RQ PDUs sent" % C.obs["n_rq"])


def _book(C, side, acc_rows, rej_rows):
    """O2: every proposed id exactly once among accepted+rejected, none invented."""
    by_id, mode = C.by_id, C.mode
    seen = {}
    for row in list(acc_rows) + list(rej_rows):
        cid = row[0]
        if cid not in by_id:
            C.viol("%s-view|invented-id|%s" % (side, mode), "%s holds context id %r which was not proposed" % (side, cid))
        elif cid in seen:
            C.viol("%s-view|duplicate-id|%s" % (side, mode), "%s holds context id %r twice" % (side, cid))
        else:
            seen[cid] = row
    for cid in by_id:
        if cid not in seen:
            C.viol("%s-view|missing-id|%s" % (side, mode),
                   "proposed context id %r is neither accepted nor rejected on the %s" % (cid, side))
    for row in acc_rows:
        if row[3] != 0x00:
            C.viol("%s-view|accepted-with-result-%s" % (side, C10._hx(row[3])), "id %r" % (row[0],))
    for row in rej_rows:
        if row[3] == 0x00:
            C.viol("%s-view|rejected-with-result-0x00" % side, "id %r" % (row[0],))


def _wire_replies(C, wac, counters):
    wreplies = {}
    for s in wac["ui"] or []:
        if s["k"] == "role":
            counters["role_replies_on_wire"] += 1
            if s["uid"] in wreplies:
                C.viol("ac-wire-differs|duplicate-role-reply", "two role items for %s" % s["uid"])
            wreplies[s["uid"]] = (s["scu"], s["scp"])
    return wreplies


def _o7_reference(C, wac, wreplies, counters):
    """O7: the requestor's view = reference reading of the AC that is on the wire."""
    obs, mode, proposed, roles = C.obs, C.mode, C.proposed, C.roles
    viol = C.viol
    rq_acc = {}
    for row in obs["rq_accepted"]:
        rq_acc.setdefault(row[0], row)
    rq_rep = obs.get("rq_replies")
    if rq_rep is not None:
        got = {u: (None if v[0] is None else int(v[0]), None if v[1] is None else int(v[1])) for u, v in rq_rep.items()}
        if got != wreplies:
            viol("rq-decode-differs|role-reply|%s" % mode, "requestor decoded role replies %r, wire carries %r" % (got, wreplies))
    ref = refneg.negotiate_as_requestor_ref(proposed, [(p["id"], p["result"], p["ts"]) for p in wac["pcs"]], roles,
                                            {u: (bool(v[0]), bool(v[1])) for u, v in wreplies.items()})
    rq_rej = {}
    for row in obs["rq_rejected"]:
        rq_rej.setdefault(row[0], row)
    counters["reference_views_compared"] += 1
    done = set()
    for cid, _, _ in proposed:
        v = ref[cid]
        if v["accepted"]:
            row = rq_acc.get(cid)
            if row is None:
                if "accepted" not in done:
                    done.add("accepted")
                    viol("requestor-differs-from-reference|accepted-on-wire-but-not-accepted|%s" % mode,
                         "id %d has result 0x00 on the wire, requestor holds %r" % (cid, rq_rej.get(cid)))
                continue
            if row[1] != v["abstract"] and "abstract" not in done:
                done.add("abstract")
                viol("requestor-differs-from-reference|abstract-syntax|%s" % mode,
                     "id %d: proposed %s, requestor holds %s" % (cid, v["abstract"], row[1]))
            if row[2] != [v["ts"]] and "ts" not in done:
                done.add("ts")
                viol("requestor-differs-from-reference|transfer-syntax|%s" % mode,
                     "id %d: wire carries %r, requestor holds %r" % (cid, v["ts"], row[2]))
            if v["documented"] and (row[4], row[5]) != (v["as_scu"], v["as_scp"]):
                k = "rq=%s|reply=%s|requestor=%s|reference=%s" % (
                    _rs(roles.get(v["abstract"])), _rs(None if v["abstract"] not in wreplies else
                                                       tuple(bool(x) for x in wreplies[v["abstract"]])),
                    _rs((row[4], row[5])), _rs((v["as_scu"], v["as_scp"])))
                if k not in done:
                    done.add(k)
                    viol("requestor-differs-from-reference|roles|%s|%s" % (mode, k),
                         "id %d (%s): requestor (as_scu, as_scp)=%r, PS3.7 D.3.3.4 reading of the wire gives %r"
                         % (cid, v["abstract"], (row[4], row[5]), (v["as_scu"], v["as_scp"])))
            if not v["documented"]:
                counters["undocumented_role_pairs"] += 1
        else:
            row = rq_rej.get(cid)
            if cid in rq_acc:
                if "rejected" not in done:
                    done.add("rejected")
                    viol("requestor-differs-from-reference|rejected-on-wire-but-accepted|%s" % mode,
                         "id %d has result %s on the wire, requestor accepted it" % (cid, C10._hx(v["result"])))
            elif row is not None and v["result"] is not None and row[3] != v["result"] and "code" not in done:
                done.add("code")
                viol("requestor-differs-from-reference|result-code|%s" % mode,
                     "id %d: wire result %s, requestor holds %s" % (cid, C10._hx(v["result"]), C10._hx(row[3])))
    if ref["_extra"]:
        viol("ac-wire-differs|result-for-unproposed-id|%s" % mode, "ids %r" % (ref["_extra"][:8],))
    return ref


def check(inp, obs, counters):
    C = _Cx(inp, obs)
    mode, by_id, roles, sup, V, viol = C.mode, C.by_id, C.roles, C.sup, C.V, C.viol
    _o1_rq_wire(C)
    wac = obs.get("wire_ac")
    acv = obs.get("ac_view")
    if wac is None:
        return V, "no A-ASSOCIATE-AC on the wire (rq_established=%r rejected=%r aborted=%r excs=%r)" % (
            obs.get("rq_established"), obs.get("rq_rejected_assoc"), obs.get("rq_aborted"), obs.get("excs"))
    counters["associations"] += 1
    counters["assoc_unrestricted" if mode == "unrestricted" else "assoc_normal"] += 1
    if acv is None:
        return V, "an A-ASSOCIATE-AC was sent but neither EVT_ACCEPTED nor EVT_ESTABLISHED was observed within 10 s"
    rq_acc = {r[0]: r for r in obs["rq_accepted"]}
    ac_acc = {r[0]: r for r in acv["accepted"]}
    _book(C, "requestor", obs["rq_accepted"], obs["rq_rejected"])
    _book(C, "acceptor", acv["accepted"], acv["rejected"])

    # ---- O3 same accepted ids
    for cid in sorted(set(rq_acc) - set(ac_acc)):
        viol("accepted-set-differs|only-requestor|%s" % mode, "id %r accepted on the requestor only" % (cid,))
        break
    for cid in sorted(set(ac_acc) - set(rq_acc)):
        viol("accepted-set-differs|only-acceptor|%s" % mode, "id %r accepted on the acceptor only" % (cid,))
        break

    # ---- O4/O5 per accepted context
    for cid in sorted(set(rq_acc) & set(ac_acc)):
        if cid not in by_id:
            continue
        r, a = rq_acc[cid], ac_acc[cid]
        p_ab = by_id[cid][1]
        counters["accepted_contexts_compared"] += 1
        if r[1] != a[1] or r[1] != p_ab:
            viol("abstract-syntax-differs|%s" % mode, "id %d: proposed %s, requestor %s, acceptor %s" % (cid, p_ab, r[1], a[1]))
        if len(r[2]) != 1 or len(a[2]) != 1:
            viol("transfer-syntax|count|%s" % ("requestor" if len(r[2]) != 1 else "acceptor"),
                 "id %d: requestor %r acceptor %r" % (cid, r[2], a[2]))
        elif r[2] != a[2]:
            viol("transfer-syntax|differs|%s" % mode, "id %d: requestor %s, acceptor %s" % (cid, r[2][0], a[2][0]))
        rr, ar = (r[4], r[5]), (a[4], a[5])
        if not all(isinstance(x, bool) for x in rr + ar):
            viol("roles|not-bool", "id %d: requestor %r acceptor %r" % (cid, rr, ar))
            continue
        cls = _classify(mode, p_ab)
        prop = roles.get(p_ab)
        sr = None if p_ab not in sup else (sup[p_ab][2], sup[p_ab][3])
        if rr[0] != ar[1] or rr[1] != ar[0]:
            tail = "rq=%s|requestor=%s|acceptor=%s" % (_rs(prop), _rs(rr), _rs(ar))
            detail = ("id %d (%s): requestor (as_scu, as_scp)=%r, acceptor (as_scu, as_scp)=%r; proposal %r, supported "
                      "roles %r" % (cid, p_ab, rr, ar, prop, sr))
            if cls == "negotiated":
                viol("roles-not-complementary|%s|negotiated|ac=%s|%s" % (mode, _rs(sr), tail), detail)
            else:
                viol("unrestricted|roles-not-complementary|%s|%s" % (cls, tail), detail)
        else:
            name = {(True, False): "roles_default", (False, True): "roles_inverted", (True, True): "roles_both",
                    (False, False): "roles_none"}[rr]
            counters[name] += 1

    # ---- O6 the AC on the wire is the acceptor's view
    counters["ac_wire_checked"] += 1
    ac_all = {}
    for row in acv["accepted"] + acv["rejected"]:
        ac_all.setdefault(row[0], row)
    wire_ids = [p["id"] for p in wac["pcs"]]
    if sorted(wire_ids) != sorted(ac_all) or len(set(wire_ids)) != len(wire_ids):
        viol("ac-wire-differs|ids|%s" % mode, "result items on the wire for ids %r, acceptor holds %r"
             % (wire_ids[:12], sorted(ac_all)[:12]))
    if sorted(wire_ids) != sorted(by_id):
        viol("ac-wire-differs|not-one-result-per-proposed-id|%s" % mode, "wire ids %r, proposed %r"
             % (wire_ids[:12], sorted(by_id)[:12]))
    for p in wac["pcs"]:
        row = ac_all.get(p["id"])
        if p["result"] in (0, 1, 2, 3, 4):
            counters["result_0x%02x" % p["result"]] += 1
        if row is None:
            continue
        counters["contexts_compared"] += 1
        if p["result"] != row[3]:
            viol("ac-wire-differs|result|%s" % mode, "id %d: wire result %s, acceptor holds %s"
                 % (p["id"], C10._hx(p["result"]), C10._hx(row[3])))
        elif p["result"] == 0 and [p["ts"]] != row[2]:
            viol("ac-wire-differs|transfer-syntax|%s" % mode, "id %d: wire %r, acceptor %r" % (p["id"], p["ts"], row[2]))
    wreplies = _wire_replies(C, wac, counters)
    ac_rep = {u: (None if v[0] is None else int(v[0]), None if v[1] is None else int(v[1])) for u, v in acv["replies"].items()}
    if ac_rep != wreplies:
        viol("ac-wire-differs|role-reply|%s" % mode, "role items on the wire %r, acceptor's replies %r" % (wreplies, ac_rep))
    if obs.get("n_ac", 1) != 1:
        viol("ac-wire-differs|count-of-ac-pdus", "%d A-ASSOCIATE-AC PDUs sent" % obs["n_ac"])

    # ---- O7
    _o7_reference(C, wac, wreplies, counters)

    # ---- O8 establishment
    none_accepted = not rq_acc or not ac_acc
    if none_accepted:
        counters["no_accepted_context"] += 1
        if obs["rq_established"]:
            viol("established-without-accepted-context|requestor|%s" % mode,
                 "requestor is established with %d accepted contexts (acceptor %d)" % (len(rq_acc), len(ac_acc)))
        elif obs.get("ac_established_final"):
            if obs.get("abort_rx") or not obs.get("abort_tx"):
                viol("established-without-accepted-context|acceptor|%s|%s" % (
                    mode, "abort-received" if obs.get("abort_rx") else "requestor-sent-no-abort"),
                    "acceptor still established 10 s after a negotiation without accepted contexts")
            else:
                return V, "acceptor still established; A-ABORT sent but not yet received (load?)"
    else:
        if not obs["rq_established"]:
            viol("not-established-with-accepted-contexts|requestor|%s" % mode,
                 "requestor not established although %d contexts were accepted; aborted=%r excs=%r"
                 % (len(rq_acc), obs.get("rq_aborted"), obs.get("excs")))
        elif "established" not in obs.get("ac_events", []):
            return V, "EVT_ESTABLISHED not observed on the acceptor within 10 s (events %r)" % (obs.get("ac_events"),)
        elif not acv.get("established"):
            viol("not-established-with-accepted-contexts|acceptor|%s" % mode,
                 "acceptor is_established=%r in its EVT_ESTABLISHED handler" % (acv.get("established"),))
        else:
            counters["established_both"] += 1
            if obs.get("ac_established_final"):
                return V, "acceptor still established 10 s after the requestor's release (load?)"
    return V, None


def check_scripted(inp, obs, counters):
    """Requestor-only part of the oracle (O1, O2, O7, O8) against a scripted reference acceptor."""
    C = _Cx(inp, obs)
    _o1_rq_wire(C)
    wac = obs.get("wire_ac")
    if wac is None:
        return C.V, "scripted acceptor: no A-ASSOCIATE-RQ received / no AC sent (%r)" % (obs.get("peer_note"),)
    counters["scripted_associations"] += 1
    if obs.get("shuffled"):
        counters["scripted_result_order_differs"] += 1
    _book(C, "requestor", obs["rq_accepted"], obs["rq_rejected"])
    wreplies = _wire_replies(C, wac, counters)
    ref = _o7_reference(C, wac, wreplies, counters)
    n_acc = sum(1 for cid, _, _ in C.proposed if ref[cid]["accepted"])
    if n_acc == 0 and obs["rq_established"]:
        C.viol("established-without-accepted-context|requestor|%s" % C.mode, "requestor established, wire AC accepts nothing")
    if n_acc > 0 and not obs["rq_established"]:
        C.viol("not-established-with-accepted-contexts|requestor|%s" % C.mode,
               "requestor not established although the AC accepts %d contexts; excs=%r" % (n_acc, obs.get("excs")))
    return C.V, None


_AUX = {}


def c10_aux(inp, obs, counters):
    """C10's acceptor postconditions on the acceptor's captured view (auxiliary: counted, keys sampled)."""
    acv = obs.get("ac_view")
    if not acv:
        return []
    try:
        o = {"results": [[r[0], r[1], r[3], r[2], r[4], r[5]] for r in acv["accepted"] + acv["rejected"]],
             "replies": [[u, v[0], v[1]] for u, v in sorted(acv["replies"].items())]}
        vs = C10.check(inp, o, collections.defaultdict(int))
    except Exception as exc:   # auxiliary only
        return ["aux-error:%r" % (exc,)]
    counters["c10_postconditions_evaluated"] += 1
    if "c10_known" not in _AUX:
        from vlib.common import load_known
        _AUX["c10_known"] = load_known("C10")
    from vlib.common import match_known
    for v in vs:
        if match_known(_AUX["c10_known"], v["key"]) is not None:
            counters["c10_postcondition_hits_known_c10_findings"] += 1
        else:
            counters["c10_postcondition_hits_other"] += 1
    return sorted(set(v["key"] for v in vs))


# ------------------------------------------------------------------------------------ case runner

def _new_counters():
    c = {k: 0 for k in REQUIRE}
    c.update({"inputs": 0, "api_rejected": 0, "api_rejected_no_supported": 0, "ff_probe_unencodable": 0,
              "ff_probe_reached_wire": 0, "roles_none": 0, "undocumented_role_pairs": 0, "result_0x02": 0,
              "c10_postconditions_evaluated": 0, "c10_postcondition_hits_known_c10_findings": 0,
              "c10_postcondition_hits_other": 0, "escaped_exceptions": 0,
              "distinct_nontrivial_inputs": 0, "unrestricted_storage_like_accepted": 0})
    return c


def _canon(inp, scripted=False):
    return sha([inp["proposed"], inp["supported"], sorted(inp["roles"].items()), inp["mode"], bool(scripted)])


def _stats(inp, counters):
    n = len(inp["proposed"])
    if n == 128:
        counters["lists_128"] += 1
    abs_ = [p[1] for p in inp["proposed"]]
    if len(set(abs_)) < len(abs_):
        counters["lists_dup_abstract"] += 1
    if any((s[2] is None and s[3] is None) and s[0] in abs_ and s[0] in inp["roles"] for s in inp["supported"]):
        counters["supported_role_None"] += 1


def run_case(case):
    counters = _new_counters()
    viols, seen_vkeys, keys = [], set(), set()
    sample, inconclusive = None, None
    aux_keys = set()
    scripted = case.get("kind") == "scripted" or bool(case.get("scripted"))
    try:
        for n, inp in enumerate(inputs_of(case)):
            counters["inputs"] += 1
            try:
                if scripted:
                    obs = observe_scripted(inp, case.get("order_seed", "%s/%s/%d" % (case.get("seed"), case.get("block"), n)))
                else:
                    obs = observe(inp)
            except ApiRejected as exc:
                counters["api_rejected"] += 1
                if "inconsistent" in str(exc):
                    counters["api_rejected_mixed_none"] += 1
                elif "No supported" in str(exc):
                    counters["api_rejected_no_supported"] += 1
                continue
            if obs.get("ff"):
                # build_role(uid, False, False) is admitted by the API but cannot be encoded: observe only
                if obs.get("wire_rq") is None and not obs.get("rq_established"):
                    counters["ff_probe_unencodable"] += 1
                    if sample is None and case.get("kind") == "ff_probe":
                        sample = {"input": inp, "observed": _short_obs(obs), "note": "SCU=0/SCP=0 proposal: no A-ASSOCIATE-RQ "
                                  "is encoded (the requestor's DUL thread raises), nothing to compare"}
                    continue
                counters["ff_probe_reached_wire"] += 1
            if scripted:
                V, inc = check_scripted(inp, obs, counters)
            else:
                _stats(inp, counters)
                V, inc = check(inp, obs, counters)
                aux_keys.update(c10_aux(inp, obs, counters))
            counters["escaped_exceptions"] += len(obs.get("excs") or [])
            if inc and not inconclusive:
                inconclusive = "%s ; input=%r" % (inc, _short(inp))
            wac = obs.get("wire_ac")
            if wac:
                n_ok = sum(1 for p in wac["pcs"] if p["result"] == 0)
                if inp["mode"] == "unrestricted" and not scripted:
                    ab_of = {q[0]: q[1] for q in inp["proposed"]}
                    counters["unrestricted_storage_like_accepted"] += sum(
                        1 for p in wac["pcs"] if p["result"] == 0 and p["id"] in ab_of
                        and _classify("unrestricted", ab_of[p["id"]]) != "negotiated")
                if n_ok and (n_ok < len(wac["pcs"]) or any(s["k"] == "role" for s in wac["ui"] or [])):
                    keys.add(_canon(inp, scripted))
            for v in V:
                if v["key"] not in seen_vkeys:
                    seen_vkeys.add(v["key"])
                    viols.append(v)
            if sample is None and wac and 2 <= len(inp["proposed"]) <= 4 and inp["roles"]:
                sample = {"input": inp, "observed": _short_obs(obs), "acceptor": "scripted reference peer" if scripted
                          else "pynetdicom AE"}
    finally:
        _join_stoppers()
    counters["distinct_nontrivial_inputs"] = len(keys)
    if sample is not None and aux_keys:
        sample = dict(sample, c10_postcondition_keys_seen_in_block=sorted(aux_keys)[:12])
    return {"key": sha(sorted(keys)), "nontrivial": bool(keys), "sample": sample, "violations": viols,
            "counters": counters, "inconclusive": inconclusive}


def extra_evidence(tier, results):
    n = sum(r.get("counters", {}).get("distinct_nontrivial_inputs", 0) for r in results.values())
    return {"distinct_nontrivial": n,
            "note": "distinct_nontrivial = per-block sets of canonical input hashes, summed (table blocks are disjoint "
                    "slices, random blocks use disjoint RNG streams)",
            "stated_limits": [
                "context ids are always 1,3,5,... in list order (AE.associate assigns them); non-sequential / unsorted "
                "ids in the request are not reachable through the public API and are not exercised",
                "SCU=0/SCP=0 role proposals cannot be carried by a pynetdicom requestor (the RQ is never encoded; the "
                "requestor's DUL thread raises ValueError in AE-2) - counted in ff_probe_unencodable, not asserted",
                "whether the acceptor's outcome is the one the documentation prescribes is C10's subject (auxiliary "
                "counters c10_postcondition_hits_*); C11 asserts agreement of the two sides and of both with the wire",
                "transfer syntaxes / roles of rejected contexts are not compared",
            ]}
