"""C05 — no schedule drives the provider into an undefined event; it returns to idle.

Real associations (both roles) run against a reactive scripted peer while the DUL reactor is single-stepped through a
sys.monitoring LINE gate at the top of `run_reactor`'s loop (vlib.sched.DulGate).  A seeded explorer decides, between
granted iterations, which environment step happens: peer sends the expected PDU / an unexpected valid PDU / an invalid
PDU / half a PDU, peer closes, a user thread calls abort()/release(), time passes (ARTIM / network / DIMSE timeouts),
the transport starts failing.  Local primitives are only those pynetdicom's own association code issues.

Monitors: online (state,event) conformance of every executed do_action (taps), exceptions escaping any thread,
and at the end (peer closed, gate opened): provider thread finished, FSM idle (Sta1), raw socket closed.
"""
import itertools
import threading
import time

from vlib import cmdset, harness, peer as vpeer, ps38, sched, taps
from vlib.common import rng_for, sha

PID = "C05"
LEVEL = "fault_enumeration"
RULE = ("seeded schedules of <= 40 environment steps (peer PDU expected/unexpected/invalid/half, peer close, local abort/"
        "release, waits across ARTIM/network/DIMSE timeouts, transport send failure) interleaved with single-stepped DUL "
        "iterations, both roles, plus targeted families (ARTIM expiry coinciding with a PDU, abort/release in Sta13, "
        "release response after incoming abort, P-DATA queued when an invalid PDU arrives); distinct = signature of the "
        "executed (state,event) sequence; non-trivial = at least one non-nominal step was taken")
ASSUMPTIONS = ["the gate only delays the DUL thread at the top of its loop (a point where it can be preempted anyway)",
               "bounded progress: timeouts 0.3-0.6 s, watchdog 12 s after the environment went quiet",
               "half-sent PDUs are always completed or followed by a close (a peer that stalls mid-PDU forever is C08's subject)"]
WORKERS = {"quick": 16, "thorough": 16}
REQUIRE = {"schedules": 200, "gated_iterations": 2000, "distinct_pairs_seen": 30, "acceptor_runs": 80, "requestor_runs": 60,
           "targeted_runs": 20}
VER = "1.2.840.10008.1.1"
FIND = "1.2.840.10008.5.1.4.1.2.1.1"
LOCAL = ("Evt1", "Evt7", "Evt8", "Evt9", "Evt11", "Evt14", "Evt15")
GATE = None


ABLOG = []                 # (seq, "enter" | "issue", id(assoc), thread ident) - abort() entries and abort primitives handed to the provider
_ABSEQ = itertools.count()
ABHOLD = {"armed": False, "first": None}


def _install_abort_taps():
    from pynetdicom.association import Association
    from pynetdicom.dul import DULServiceProvider
    from pynetdicom.pdu_primitives import A_ABORT, A_P_ABORT
    orig_abort = Association._abort_blocking
    orig_send = DULServiceProvider.send_pdu

    def tapped_abort(self, *a, **k):
        ABLOG.append((next(_ABSEQ), "enter", id(self), threading.get_ident()))
        return orig_abort(self, *a, **k)

    def tapped_send(self, primitive):
        if isinstance(primitive, (A_ABORT, A_P_ABORT)):
            ABLOG.append((next(_ABSEQ), "issue", id(self.assoc), threading.get_ident()))
            first = ABHOLD["first"]
            if ABHOLD["armed"] and first is not None and not first.is_set():
                # the first abort stays "being issued" (where an EVT_ACSE_SENT handler would run) while a second caller arrives
                first.set()
                time.sleep(0.08)
        return orig_send(self, primitive)
    Association._abort_blocking = tapped_abort
    DULServiceProvider.send_pdu = tapped_send


def setup_worker():
    global GATE
    harness.quiet_logging()
    taps.install()
    _install_abort_taps()
    GATE = sched.DulGate()
    GATE.install()


def gen_cases(tier, seed):
    n = 240 if tier == "quick" else 12000
    cases = []
    for name in TARGETED:
        reps = 2 if tier == "quick" else 20
        if name.startswith("second-abort"):
            reps *= 3          # a schedule that depends on two user threads meeting: a few more tries on a loaded machine
        for role_seed in range(reps):
            cases.append({"kind": "targeted", "name": name, "seed": seed, "i": role_seed})
    for i in range(n):
        cases.append({"kind": "random", "role": "acceptor" if i % 5 < 3 else "requestor", "seed": seed, "i": i})
    return cases


# ------------------------------------------------------------------ reactive scripted peer

IDENT = b"\x08\x00\x52\x00\x08\x00\x00\x00PATIENT " + b"\x10\x00\x20\x00\x02\x00\x00\x00* "


class Reactive:
    """Wraps a vlib.peer.Peer; knows what the protocol expects next from it."""

    def __init__(self, p, as_requestor):
        self.p = p
        self.as_requestor = as_requestor      # True: peer of a pynetdicom ACCEPTOR
        self.agenda = ["rq", "echo", "find", "echo", "relrq"] if as_requestor else []
        self.pending = []                    # requests received from pynetdicom not answered yet
        self.half = None
        self.closed = False
        self.established = False
        self.msg_id = 1

    def _pump(self):
        """Read (without blocking) what pynetdicom sent; queue what needs an answer."""
        while not self.closed:
            v = self.p.recv_pdu(0.0)
            if v is None:
                return
            t = v["type"]
            if t == "EOF":
                return
            if t == "RQ":
                self.pending.append(("rq", v))
            elif t == "RELRQ":
                self.pending.append(("relrq", v))
            elif t == "AC":
                self.established = True
            elif t == "PDATA":
                for pd in v["pdvs"]:
                    raw = bytes.fromhex(pd["data"])
                    if raw[0] & 1 and raw[0] & 2:
                        cmd = cmdset.decode(raw[1:])
                        cf = cmd.get("CommandField", 0)
                        if cf and not cf & 0x8000 and cf != 0x0FFF:
                            self.pending.append(("dimse", (pd["id"], cmd)))

    def _send(self, b):
        if self.closed:
            return
        try:
            self.p.send_raw(b)
        except OSError:
            self.closed = True

    def proper_bytes(self):
        """Bytes of the protocol-expected next PDU(s) from this peer, or None."""
        self._pump()
        if self.pending:
            kind, v = self.pending.pop(0)
            if kind == "rq":
                self.established = True
                return ps38.encode(ps38.make_ac(v))
            if kind == "relrq":
                return ps38.encode({"type": "RELRP"})
            ctx, cmd = v
            cf = cmd["CommandField"]
            rsp = {"CommandField": cf | 0x8000, "MessageIDBeingRespondedTo": cmd.get("MessageID", 1), "Status": 0,
                   "CommandDataSetType": 0x0101}
            if "AffectedSOPClassUID" in cmd:
                rsp["AffectedSOPClassUID"] = cmd["AffectedSOPClassUID"]
            return b"".join(ps38.encode(x) for x in self.p.dimse_pdus(ctx, rsp))
        if self.agenda:
            what = self.agenda.pop(0)
            self.msg_id += 1
            if what == "rq":
                return ps38.encode(ps38.make_rq(pcs=[{"id": 1, "abs": VER, "ts": [ps38.IMPLICIT_LE]},
                                                    {"id": 3, "abs": FIND, "ts": [ps38.IMPLICIT_LE]}]))
            if what == "echo":
                return b"".join(ps38.encode(x) for x in self.p.dimse_pdus(1, cmdset.c_echo_rq(self.msg_id)))
            if what == "find":
                cmd = cmdset.make("C-FIND-RQ", AffectedSOPClassUID=FIND, MessageID=self.msg_id, Priority=0, CommandDataSetType=0)
                return b"".join(ps38.encode(x) for x in self.p.dimse_pdus(3, cmd, IDENT))
            if what == "relrq":
                return ps38.encode({"type": "RELRQ"})
        return None

    def act(self, action, rng):
        if self.closed:
            return "closed"
        if self.half is not None and action != "close":
            b, self.half = self.half, None
            self._send(b)
            return "rest-of-half"
        if action == "proper":
            b = self.proper_bytes()
            if b:
                self._send(b)
                return "proper"
            return "nothing-to-send"
        if action == "half":
            b = self.proper_bytes()
            if b and len(b) > 8:
                k = rng.randint(1, len(b) - 1)
                self._send(b[:k]); self.half = b[k:]
                return "half"
            return "nothing-to-send"
        if action == "unexpected":
            t = rng.choice(["RQ", "AC", "RJ", "PDATA", "RELRQ", "RELRP", "ABORT"])
            v = {"RQ": ps38.make_rq(), "AC": ps38.make_ac(ps38.make_rq()), "RJ": {"type": "RJ", "result": 1, "source": 1, "reason": 1},
                 "PDATA": ps38.pdata(ps38.pdv(1, cmdset.encode(cmdset.c_echo_rq(99)), True, True)),
                 "RELRQ": {"type": "RELRQ"}, "RELRP": {"type": "RELRP"}, "ABORT": {"type": "ABORT", "source": 0, "reason": 0}}[t]
            self._send(ps38.encode(v))
            return "unexpected-" + t
        if action == "invalid":
            self._send(rng.choice([b"\x09\x00\x00\x00\x00\x00", b"\x01\x00\x00\x00\x00\x02\x00\x01", b"\x04\x00\x00\x00\x00\x04\x00\x00\x00\x09"]))
            return "invalid"
        if action == "close":
            self.closed = True
            self.p.close()
            return "close"
        return "?"


# ------------------------------------------------------------------ scenario runner

def _handlers(hold):
    from pynetdicom import evt

    def on_echo(event):
        return 0x0000

    def on_find(event):
        from pydicom.dataset import Dataset
        for i in range(3):
            if hold is not None:
                hold.wait(2.0)
            ds = Dataset(); ds.QueryRetrieveLevel = "PATIENT"; ds.PatientName = "X%d" % i
            yield 0xFF00, ds
    return [(evt.EVT_C_ECHO, on_echo), (evt.EVT_C_FIND, on_find)]


def _iteration_began_after_expiry(target, f5, s_rq):
    """True when the provider iteration that read the A-ASSOCIATE-RQ BEGAN (left the gate line) more than ARTIM (0.3 s) after
    Evt5 was processed: a correct reactor looks at ARTIM first in every iteration and would have queued Evt18 ahead of Evt6.
    An iteration that began earlier and was merely slow (loaded machine) is the known in-iteration race."""
    t_read = taps.State.dul_event_times.get(s_rq)
    passes = list(GATE.passes.get(target.dul.ident, ()))
    if t_read is None or not passes:
        return False
    began = [t for t in passes if t <= t_read]
    if not began:
        return False
    return began[-1] - f5["t"] > 0.3 + 0.02


def run_schedule(case, steps, role, counters):
    """steps: list of tuples; returns (violations, observation)."""
    rng = rng_for(case["seed"], PID, case.get("name", "r"), case["i"], "run")
    taps.reset()
    del ABLOG[:]
    ABHOLD.update(armed=False, first=threading.Event())
    viol = []
    trace = []
    ae = harness.make_ae(timeouts=(0.3, 0.5, 0.6, 1.0), supported=[VER, FIND], requested=[VER, FIND])
    hold = threading.Event(); hold.set()
    fail_send = {"on": False}
    taps.State.socket_hook = lambda proxy, assoc: setattr(proxy, "fail_send", lambda data: fail_send["on"])
    GATE.arm()
    user_threads = []
    lst = None
    target = None
    rp = None
    try:
        if role == "acceptor":
            server, port = harness.start_server(ae, _handlers(hold))
            p = vpeer.Peer.connect(port)
            rp = Reactive(p, as_requestor=True)
            harness.wait_for(lambda: bool(harness.acceptor_assocs()), 2.0)
            accs = harness.acceptor_assocs()
            if not accs:
                return [], {"setup": "no acceptor association"}, "setup failed"
            target = accs[0]
        else:
            lst = vpeer.Listener()
            res = {}

            def user():
                try:
                    a = ae.associate("127.0.0.1", lst.port)
                    res["established"] = a.is_established
                    if a.is_established:
                        st = a.send_c_echo()
                        res["echo"] = getattr(st, "Status", None)
                        if rng.random() < 0.3:
                            list(a.send_c_find(_ident_ds(), FIND))
                        if a.is_established:
                            (a.abort if res.get("want_abort") else a.release)()
                except Exception as exc:      # an exception out of the public API is an observation
                    res["exc"] = repr(exc)
            res["want_abort"] = rng.random() < 0.3
            ut = threading.Thread(target=user, daemon=True)
            ut.start(); user_threads.append(ut)
            harness.wait_for(lambda: bool(harness.requestor_assocs()), 2.0)
            if not harness.requestor_assocs():
                return [], {"setup": "no requestor association"}, "setup failed"
            target = harness.requestor_assocs()[0]
            harness.wait_for(lambda: target.dul.ident is not None, 2.0)
            q = None
            for _ in range(6):       # AE-1 (TCP connect) happens inside a DUL iteration
                GATE.step(target.dul, 1, 1.0)
                counters["gated_iterations"] = counters.get("gated_iterations", 0) + 1
                q = lst.accept(0.3)
                if q is not None:
                    break
            if q is None:
                return [], {"setup": "requestor never connected"}, "setup failed"
            rp = Reactive(q, as_requestor=False)
        dul = target.dul
        harness.wait_for(lambda: dul.ident is not None, 2.0)
        GATE.wait_parked(dul, 2.0)
        nominal = True
        for st in steps:
            kind = st[0]
            if kind == "grant":
                ok = GATE.step(dul, st[1], 3.0)
                counters["gated_iterations"] = counters.get("gated_iterations", 0) + st[1]
                trace.append("g%d" % st[1])
                if not dul.is_alive():
                    break
            elif kind == "peer":
                r = rp.act(st[1], rng)
                trace.append("p:" + r)
                if st[1] != "proper":
                    nominal = False
            elif kind == "wait":
                time.sleep(st[1]); trace.append("w%.2f" % st[1])
                if st[1] >= 0.3:
                    nominal = False
            elif kind == "user" and st[1] == "abort-twice-staggered":
                # two user threads abort the same association; the second one arrives while the first abort is being issued
                nominal = False
                ABHOLD["armed"] = True
                first = ABHOLD["first"]

                def second():
                    first.wait(2.0)
                    _quiet_call(target.abort)
                for fn in (target.abort, second):
                    t = threading.Thread(target=_quiet_call if fn is target.abort else fn, args=((fn,) if fn is target.abort else ()), daemon=True)
                    t.start(); user_threads.append(t)
                trace.append("u:abort-twice-staggered")
                time.sleep(0.12)
            elif kind == "user":
                nominal = False
                fn = {"abort": target.abort, "release": target.release, "shutdown": ae.shutdown}[st[1]]
                t = threading.Thread(target=_quiet_call, args=(fn,), daemon=True)
                t.start(); user_threads.append(t); trace.append("u:" + st[1])
                time.sleep(0.01)
            elif kind == "hold":
                (hold.clear if st[1] else hold.set)(); trace.append("hold%d" % st[1])
            elif kind == "sendfail":
                fail_send["on"] = True; nominal = False; trace.append("sendfail")
        # ---- the environment goes quiet: peer closes, scheduler stops interfering
        hold.set()
        rp.act("close", rng)
        GATE.open()
        quiet, waited = taps.wait_quiet(12.0)
        for t in user_threads:
            t.join(3.0)
        # ---- verdicts
        seq = [(f["before"], f["event"]) for f in taps.State.fsm if f["assoc"] == id(target)]
        for pr in taps.State.fsm_problems:
            if pr["kind"] == "invalid-event":
                ev, stt = pr["pair"].split("@")
                if ev in LOCAL:
                    fam = "local-primitive"
                    if ev == "Evt15":
                        # a second abort() that ENTERED after an earlier abort primitive of the same association was already being
                        # issued must stop at the single-abort guard; only calls that entered concurrently (before the first one
                        # set the flag) belong to the known double-abort race
                        issues = [(q_, th) for (q_, k_, aid, th) in ABLOG if aid == id(target) and k_ == "issue"]
                        enters = [(q_, th) for (q_, k_, aid, th) in ABLOG if aid == id(target) and k_ == "enter"]
                        # only aborts issued through Association.abort() count (the ACSE's own A-ABORTs after a timeout do not go
                        # through the guard: a user abort() after one of those stays in the known family)
                        guarded = []
                        for (qb, th) in issues:
                            e_ = max((q_ for (q_, t2) in enters if t2 == th and q_ < qb), default=None)
                            if e_ is not None:
                                guarded.append((e_, qb))
                        if any(e2 > i1 for (e1, i1) in guarded for (e2, i2) in guarded if i2 > i1):
                            fam = "local-abort-entered-after-an-earlier-abort-was-being-issued"
                    viol.append({"key": "invalid-event|%s|%s" % (fam, pr["pair"]), "detail": "%r trace=%r aborts=%r" % (
                        pr, trace, [(q_, k_) for (q_, k_, aid, th) in ABLOG if aid == id(target)])})
                elif pr["pair"] == "Evt18@Sta3":
                    # mechanism discriminators: (a) was the A-ASSOCIATE-RQ already read (queued) before Evt5 started ARTIM?
                    # (b) otherwise: had ARTIM (0.3 s) already expired when the iteration that read the RQ began (then a
                    # correct reactor queues Evt18 FIRST), or did it expire while that iteration was running (sub-ms race)?
                    f5 = next((f for f in taps.State.fsm if f["assoc"] == id(target) and f["event"] == "Evt5"), None)
                    f6 = next((f for f in taps.State.fsm if f["assoc"] == id(target) and f["event"] == "Evt6"), None)
                    s_rq = next((sq for (sq, aid, e) in taps.State.dul_events if aid == id(target) and e == "Evt6"), 10 ** 9)
                    if f5 is None or s_rq < f5["seq"]:
                        how = "rq-read-before-artim-start"
                    elif f6 is not None and _iteration_began_after_expiry(target, f5, s_rq):
                        how = "artim-already-expired-when-the-reading-iteration-began"
                    else:
                        how = "artim-expired-during-the-reading-iteration"
                    viol.append({"key": "invalid-event|Evt18@Sta3|%s" % how, "detail": "%r trace=%r" % (pr, trace)})
                else:
                    viol.append({"key": "invalid-event|%s" % pr["pair"], "detail": "%r trace=%r" % (pr, trace)})
            elif pr["kind"] == "action-raises":
                viol.append({"key": "action-raises|%s|%s" % (pr["action"], pr["exc"]), "detail": "%r" % pr})
            else:
                viol.append({"key": "fsm|%s|%s" % (pr["kind"], pr.get("pair") or pr.get("action")), "detail": "%r" % pr})
        invalid_seen = any(v["key"].startswith("invalid-event") for v in viol)
        for e in taps.State.excs:
            if e["type"] == "InvalidEventError" and invalid_seen:
                continue
            kindt = "provider-thread" if "run_reactor" in " ".join(e["frames"]) and "dul.py" in " ".join(e["frames"]) else "other-thread"
            viol.append({"key": "exception-escaped|%s|%s|%s" % (kindt, e["type"], e["where"]), "detail": "%r" % e})
        inconclusive = None
        if not quiet:
            stuck = [(a, al, dl, s) for (a, al, dl, s) in taps.assoc_threads() if al or dl]
            parked = []
            for (a, al, dl, s) in stuck:
                for th_ in ([a] if al else []) + ([a.dul] if dl else []):
                    same, stack = taps.stable_block(th_, 1.0)
                    parked.append((th_.name.split("@")[0], s, same, stack[-2:]))
            if any(x[2] for x in parked):
                w = next(x for x in parked if x[2])
                viol.append({"key": "not-idle|stuck|%s|%s" % (w[1], w[3][-1].split(":")[1] if w[3] else "?"),
                             "detail": "12 s after the peer closed: %r" % parked})
            else:
                inconclusive = "threads alive after the watchdog but moving: %r" % parked
        elif not viol:
            st_end = target.dul.state_machine.current_state
            if st_end != "Sta1":
                viol.append({"key": "not-idle|%s|%s|last=%s" % (target.mode, st_end, "+".join(seq[-1]) if seq else "none"),
                             "detail": "provider thread ended with the FSM in %s; last transitions %r" % (st_end, seq[-4:])})
            elif taps.open_sockets():
                viol.append({"key": "socket-left-open|%s|last=%s" % (target.mode, "+".join(seq[-1]) if seq else "none"),
                             "detail": "FSM idle but %d raw socket(s) not closed; trace=%r fsm=%r" % (len(taps.open_sockets()), trace, seq[-6:])})
        counters["schedules"] = counters.get("schedules", 0) + 1
        counters[role + "_runs"] = counters.get(role + "_runs", 0) + 1
        obs = {"role": role, "steps": trace[:60], "fsm": ["%s+%s" % x for x in seq][-14:], "nominal": nominal,
               "gate_timeouts": GATE.timeouts}
        return viol, obs, inconclusive, seq, nominal
    finally:
        GATE.open()
        hold.set()
        if rp is not None and not rp.closed:
            rp.p.close()
        if lst is not None:
            lst.close()
        harness.stop_ae(ae, timeout=3.0)


def _quiet_call(fn):
    try:
        fn()
    except Exception:
        pass


def _ident_ds():
    from pydicom.dataset import Dataset
    ds = Dataset(); ds.QueryRetrieveLevel = "PATIENT"; ds.PatientName = "*"
    return ds


# ------------------------------------------------------------------ schedules

def random_steps(rng, role):
    steps = []
    n = rng.randint(8, 40)
    # bring the association up nominally for a random prefix, then go hostile
    prefix = rng.choice([0, 2, 4, 6, 8, 12])
    for i in range(n):
        if i < prefix:
            steps.append(("peer", "proper")); steps.append(("grant", rng.choice([1, 2, 3, 6])))
            continue
        r = rng.random()
        if r < 0.30:
            steps.append(("grant", rng.choice([1, 1, 2, 3, 5])))
        elif r < 0.55:
            steps.append(("peer", "proper"))
        elif r < 0.65:
            steps.append(("peer", "unexpected"))
        elif r < 0.71:
            steps.append(("peer", "invalid"))
        elif r < 0.76:
            steps.append(("peer", "half"))
        elif r < 0.80:
            steps.append(("peer", "close"))
        elif r < 0.88:
            steps.append(("wait", rng.choice([0.02, 0.1, 0.35, 0.7])))
        elif r < 0.93:
            # one release() per association at most (two threads releasing the same association concurrently is API
            # misuse, not an environment step); the requestor's own user script already ends with release()/abort()
            choices = ["abort", "abort", "shutdown"] + (["release"] if role == "acceptor" and not any(s == ("user", "release") for s in steps) else [])
            steps.append(("user", rng.choice(choices)))
        elif r < 0.96:
            steps.append(("hold", rng.choice([0, 1])))
        else:
            steps.append(("sendfail",))
    steps.append(("grant", 3))
    return steps


UP = [("grant", 1), ("peer", "proper"), ("grant", 8)]        # Evt5, RQ, association established (acceptor role)
TARGETED = {
    # ARTIM expires while the RQ becomes readable in the same iteration (Evt18 must be handled first)
    "artim-expiry-coincides-with-rq": ("acceptor", [("grant", 1), ("wait", 0.45), ("peer", "proper"), ("grant", 4)]),
    "artim-expiry-then-rq-later": ("acceptor", [("grant", 1), ("wait", 0.45), ("grant", 1), ("peer", "proper"), ("grant", 3)]),
    # invalid PDU moves the provider to Sta13, then the local user aborts / releases
    "abort-in-sta13": ("acceptor", UP + [("peer", "invalid"), ("grant", 1), ("user", "abort"), ("grant", 4)]),
    "release-in-sta13": ("acceptor", UP + [("peer", "invalid"), ("grant", 1), ("user", "release"), ("grant", 4)]),
    # two user threads abort; the second arrives while the first abort is being issued (must stop at the single-abort guard)
    "second-abort-while-first-is-being-issued": ("acceptor", UP + [("user", "abort-twice-staggered"), ("grant", 6)]),
    "second-abort-while-first-is-being-issued-requestor": ("requestor", [("grant", 3), ("peer", "proper"), ("grant", 4), ("user", "abort-twice-staggered"), ("grant", 6)]),
    # handler still producing C-FIND responses when an invalid PDU arrives
    "pdata-queued-when-invalid-arrives": ("acceptor", UP + [("hold", 1), ("peer", "proper"), ("grant", 2), ("peer", "proper"), ("grant", 3),
                                                           ("peer", "invalid"), ("grant", 1), ("hold", 0), ("wait", 0.05), ("grant", 4)]),
    # release request answered while an abort from the peer is already on the wire
    "release-rsp-after-incoming-abort": ("acceptor", UP + [("peer", "proper"), ("grant", 2), ("peer", "proper"), ("grant", 2), ("peer", "proper"), ("grant", 2),
                                                          ("peer", "proper"), ("grant", 1), ("peer", "unexpected"), ("grant", 4)]),
    # peer closes right after its RQ; accept primitive arrives in Sta1/after close
    "close-after-rq": ("acceptor", [("grant", 1), ("peer", "proper"), ("grant", 1), ("peer", "close"), ("grant", 5)]),
    "pdata-in-sta3": ("acceptor", [("grant", 1), ("peer", "proper"), ("grant", 1), ("peer", "unexpected"), ("grant", 5)]),
    # transport starts failing while responses are being sent
    "send-failure-while-responding": ("acceptor", UP + [("peer", "proper"), ("grant", 1), ("sendfail",), ("grant", 6)]),
    # requestor side
    "requestor-invalid-instead-of-ac": ("requestor", [("grant", 3), ("peer", "invalid"), ("grant", 4)]),
    "requestor-abort-while-connecting": ("requestor", [("grant", 1), ("user", "abort"), ("grant", 4), ("peer", "proper"), ("grant", 3)]),
    "requestor-release-collision": ("requestor", [("grant", 3), ("peer", "proper"), ("grant", 4), ("peer", "proper"), ("grant", 4),
                                                  ("peer", "unexpected"), ("grant", 6)]),
    "requestor-no-answer-acse-timeout": ("requestor", [("grant", 3), ("wait", 0.5), ("grant", 6)]),
}


def run_case(case):
    counters = {}
    rng = rng_for(case["seed"], PID, case.get("name", "r"), case["i"])
    if case["kind"] == "targeted":
        role, steps = TARGETED[case["name"]]
        # vary the grants a little so that the family covers neighbouring schedules too
        steps = [(s[0], max(1, s[1] + rng.choice([0, 0, 0, 1]))) if s[0] == "grant" and case["i"] else s for s in steps]
        counters["targeted_runs"] = 1
    else:
        role = case["role"]
        steps = random_steps(rng, role)
    out = run_schedule(case, steps, role, counters)
    if len(out) == 3:
        viol, obs, inc = out
        return {"key": "setup", "nontrivial": False, "sample": obs, "violations": viol, "counters": counters, "inconclusive": inc}
    viol, obs, inc, seq, nominal = out
    pairs = sorted(set("%s+%s" % x for x in seq))
    return {"key": sha(seq), "nontrivial": not nominal, "sample": {"case": case, "observed": obs},
            "violations": viol, "counters": counters, "inconclusive": inc, "_pairs": pairs}


def extra_evidence(tier, results):
    pairs = {}
    for r in results.values():
        for p in r.get("_pairs") or []:
            pairs[p] = pairs.get(p, 0) + 1
    return {"transitions_seen": pairs, "distinct_pairs_seen": len(pairs), "counters_note": "transitions_seen = (state+event) pairs executed by the real provider over all schedules"}
